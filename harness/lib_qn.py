"""Helpers shared by search_c05.py (truncation bounds) and search_c06.py (quantum numbers).

Everything here is *oracle side*: it only reads public data of the library objects (site tensors,
``qn``, ``qnidx``, ``qntot``, ``basis.sigmaqn``) and recomputes sectors, label invariants and
singular spectra with plain NumPy.  No routine of renormalizer.mps.svd_qn / mp.py is called by
the checks."""
import logging

import numpy as np

EPS = np.finfo(float).eps


def quiet():
    logging.getLogger("renormalizer").setLevel(logging.CRITICAL)
    logging.disable(logging.CRITICAL)


def reseed(rng):
    """the library draws from numpy's global generator (Mps.random, TTNS.random, davidson guesses);
    tie it to the harness generator so that a run is deterministic given `rng`"""
    s = int(rng.integers(0, 2 ** 31 - 1))
    np.random.seed(s)
    return s


def arr(x):
    """library Matrix / xp array / ndarray -> ndarray"""
    if hasattr(x, "array"):
        x = x.array
    return np.asarray(x)


def jsonable(x):
    if isinstance(x, np.ndarray):
        if np.iscomplexobj(x):
            return [jsonable(v) for v in x.tolist()]
        return x.tolist()
    if isinstance(x, (np.integer,)):
        return int(x)
    if isinstance(x, (np.floating,)):
        return float(x)
    if isinstance(x, complex):
        return [x.real, x.imag]
    if isinstance(x, (list, tuple)):
        return [jsonable(v) for v in x]
    if isinstance(x, dict):
        return {str(k): jsonable(v) for k, v in x.items()}
    return x


# ------------------------------------------------------------------------------------------
# basis / model generators
# ------------------------------------------------------------------------------------------
def make_basis(spec):
    """spec: list of tuples describing one basis set each (JSON friendly, used in replays)
         ("e", comp)            BasisSimpleElectron, occupation counted in component `comp`
         ("s", q0, q1)          BasisHalfSpin with sigmaqn [q0, q1] (ints or lists)
         ("s0",)                BasisHalfSpin without quantum number
         ("v", nbas)            BasisSHO(omega=1+0.1*i) – quantum number 0
         ("mv", k)              BasisMultiElectronVac with k states (+vacuum), one component only
         ("me", [[..],..])      BasisMultiElectron with the given sigmaqn
         ("d",)                 BasisDummy (dimension 1)
       The number of components is inferred: 1 unless a 2-list appears; `qn_size` is returned."""
    from renormalizer import (BasisSimpleElectron, BasisHalfSpin, BasisSHO, BasisMultiElectronVac,
                              BasisMultiElectron)
    from renormalizer.model.basis import BasisDummy
    k = spec_qn_size(spec)

    def vec(comp, val=1):
        v = [0] * k
        v[comp] = val
        return v

    out = []
    for i, s in enumerate(spec):
        t = s[0]
        if t == "e":
            comp = s[1]
            out.append(BasisSimpleElectron(("e", i), sigmaqn=[[0] * k, vec(comp)]))
        elif t == "s":
            q0, q1 = s[1], s[2]
            q0 = list(q0) if isinstance(q0, (list, tuple)) else [q0]
            q1 = list(q1) if isinstance(q1, (list, tuple)) else [q1]
            assert len(q0) == k and len(q1) == k
            out.append(BasisHalfSpin(("s", i), sigmaqn=[q0, q1]))
        elif t == "s0":
            out.append(BasisHalfSpin(("s", i), sigmaqn=[[0] * k, [0] * k]))
        elif t == "v":
            assert k == 1
            out.append(BasisSHO(("v", i), 1.0 + 0.1 * i, int(s[1])))
        elif t == "mv":
            assert k == 1
            out.append(BasisMultiElectronVac([("m", i, j) for j in range(int(s[1]))]))
        elif t == "me":
            sq = [list(q) if isinstance(q, (list, tuple)) else [q] for q in s[1]]
            out.append(BasisMultiElectron([("m", i, j) for j in range(len(sq))], sq))
        elif t == "d":
            out.append(BasisDummy(("d", i), 1, sigmaqn=[[0] * k]))
        else:
            raise ValueError(t)
    return out, k


def spec_qn_size(spec):
    k = 1
    for s in spec:
        if s[0] == "s" and isinstance(s[1], (list, tuple)):
            k = max(k, len(s[1]))
        if s[0] == "me":
            for q in s[1]:
                if isinstance(q, (list, tuple)):
                    k = max(k, len(q))
        if s[0] == "e" and s[1] >= 1:
            k = max(k, s[1] + 1)
    return k


def random_spec(rng, n, two_comp=False, allow=("e", "s", "s0", "v", "mv", "me")):
    """structural generator of a basis list: at least one charged site.
    One draw in five (when spins are allowed) is a chain of spins with SIGNED charges (+1/-1, S_z like): there the total
    charge can vanish although every bond carries several populated blocks."""
    spec = []
    if "s" in allow and "e" in allow and rng.random() < 0.2:
        for i in range(n):
            if two_comp:
                a = [1, -1] if rng.random() < 0.5 else [1, 0]
                spec.append(("s", a, [-x for x in a]) if rng.random() < 0.8 else ("s", [0, 1], [0, -1]))
            else:
                spec.append(("s", 1, -1) if rng.random() < 0.8 else ("s", -1, 1))
        return spec
    for i in range(n):
        t = allow[int(rng.integers(len(allow)))]
        if two_comp and t in ("v", "mv"):
            t = "e"
        if t == "e":
            spec.append(("e", int(rng.integers(2)) if two_comp else 0))
        elif t == "s":
            if two_comp:
                c = int(rng.integers(2))
                a = [0, 0]
                b = [0, 0]
                b[c] = 1
                if rng.random() < 0.3:
                    a, b = b, a
                spec.append(("s", a, b))
            else:
                spec.append(("s", 0, 1) if rng.random() < 0.7 else ("s", 1, 0))
        elif t == "s0":
            spec.append(("s0",))
        elif t == "v":
            spec.append(("v", int(rng.integers(2, 5))))
        elif t == "mv":
            spec.append(("mv", int(rng.integers(1, 4))))
        elif t == "me":
            if two_comp:
                spec.append(("me", [[0, 0], [1, 0], [0, 1], [1, 1]][: int(rng.integers(2, 5))]))
            else:
                m = int(rng.integers(2, 5))
                spec.append(("me", [int(x) for x in np.sort(rng.integers(0, 3, size=m))]))
    if not any(s[0] in ("e", "s", "mv", "me") for s in spec):
        spec[int(rng.integers(n))] = ("e", 0)
    if two_comp and spec_qn_size(spec) == 1:
        spec[0] = ("e", 1)
    return spec


def sigmaqn_of(basis, k):
    return np.asarray(basis.sigmaqn).reshape(basis.nbas, k).astype(int)


def config_qn(basis_list, k):
    """total quantum number of every product-basis configuration, C order, shape (N, k)"""
    q = np.zeros((1, k), dtype=int)
    for b in basis_list:
        s = sigmaqn_of(b, k)
        q = (q[:, None, :] + s[None, :, :]).reshape(-1, k)
    return q


def reachable_sectors(basis_list, k):
    q = config_qn(basis_list, k)
    return sorted(set(tuple(int(v) for v in t) for t in q))


def sector_leak(dense, basis_list, k, qntot):
    """(max |amplitude| outside the sector, norm of the vector)"""
    v = np.asarray(dense).reshape(-1)
    q = config_qn(basis_list, k)
    assert q.shape[0] == v.shape[0], (q.shape, v.shape)
    outside = np.any(q != np.asarray(qntot).reshape(1, k), axis=1)
    nrm = float(np.linalg.norm(v))
    leak = float(np.abs(v[outside]).max()) if outside.any() else 0.0
    return leak, nrm


def op_sector_leak(dense_op, basis_list, k, q_op):
    """operator matrix (rows = new state): entries with q(row) - q(col) != q_op"""
    m = np.asarray(dense_op)
    q = config_qn(basis_list, k)
    d = q[:, None, :] - q[None, :, :]
    outside = np.any(d != np.asarray(q_op).reshape(1, 1, k), axis=2)
    leak = float(np.abs(m[outside]).max()) if outside.any() else 0.0
    return leak, float(np.linalg.norm(m))


# ------------------------------------------------------------------------------------------
# label invariant, chains
# ------------------------------------------------------------------------------------------
def chain_site_sigmaqn(mp, i, k):
    """independent re-statement of the per-site physical charges, flattened over the physical
    indices of site i: Mps q(s); Mpo q(s)-q(s'); MpDm q(s) (ancilla index carries no charge)"""
    b = mp.model.basis[i]
    s = sigmaqn_of(b, k)
    if mp.is_mps:
        return s
    if mp.is_mpo:
        return (s[:, None, :] - s[None, :, :]).reshape(-1, k)
    if mp.is_mpdm:
        return (s[:, None, :] + 0 * s[None, :, :]).reshape(-1, k)
    raise ValueError


def all_left_labels(mp):
    n = mp.site_num
    qntot = np.asarray(mp.qntot).reshape(-1).astype(int)
    k = len(qntot)
    L = []
    for j in range(n + 1):
        q = np.asarray(mp.qn[j]).reshape(-1, k).astype(int)
        L.append(q if j <= mp.qnidx else qntot[None, :] - q)
    return L, qntot, k


def chain_label_problems(mp, rel=1e-10):
    """list of (site, what) where the stored labels do not describe the non-zero blocks.
    Convention (mp.py move_qnidx/_get_big_qn): bonds j <= qnidx hold left-block labels,
    bonds j > qnidx hold qntot - left."""
    probs = []
    n = mp.site_num
    if mp.qnidx is None or not (0 <= mp.qnidx <= n - 1):
        return [(-1, f"qnidx={mp.qnidx}")]
    if len(mp.qn) != n + 1:
        return [(-1, f"len(qn)={len(mp.qn)}")]
    L, qntot, k = all_left_labels(mp)
    if L[0].shape[0] != 1 or np.any(L[0] != 0):
        probs.append((0, "left-boundary-label"))
    if L[n].shape[0] != 1 or np.any(L[n] != qntot[None, :]):
        probs.append((n, "right-boundary-label"))
    for i in range(n):
        A = arr(mp[i])
        sq = chain_site_sigmaqn(mp, i, k)
        A3 = A.reshape(A.shape[0], -1, A.shape[-1])
        if L[i].shape[0] != A3.shape[0] or L[i + 1].shape[0] != A3.shape[2] or sq.shape[0] != A3.shape[1]:
            probs.append((i, "label-length"))
            continue
        amax = float(np.abs(A3).max())
        if amax == 0:
            continue
        d = L[i][:, None, None, :] + sq[None, :, None, :] - L[i + 1][None, None, :, :]
        bad = (np.abs(A3) > rel * amax) & np.any(d != 0, axis=-1)
        if bad.any():
            probs.append((i, "nonzero-outside-block"))
    return probs


def chain_dense(mp):
    """dense vector of a chain with the physical indices of every site grouped (site-major):
    Mps -> psi[s1..sn];  Mpo/MpDm -> O[(s1 s1'),(s2 s2'),..] flattened.  Own contraction."""
    res = np.ones((1, 1), dtype=complex if mp.is_complex else float)
    dims = []
    for i in range(mp.site_num):
        A = arr(mp[i])
        A3 = A.reshape(A.shape[0], -1, A.shape[-1])
        dims.append(A3.shape[1])
        res = np.tensordot(res, A3, axes=1).reshape(-1, A3.shape[2])
    assert res.shape[1] == 1
    return res[:, 0], dims


def chain_sector_leak(mp):
    """leak of the dense object outside its sector; for operators the 'configuration charge' of
    site index (s,s') is q(s)-q(s'), for MpDm q(s)"""
    v, dims = chain_dense(mp)
    qntot = np.asarray(mp.qntot).reshape(-1).astype(int)
    k = len(qntot)
    q = np.zeros((1, k), dtype=int)
    for i in range(mp.site_num):
        s = chain_site_sigmaqn(mp, i, k)
        q = (q[:, None, :] + s[None, :, :]).reshape(-1, k)
    outside = np.any(q != qntot[None, :], axis=1)
    nrm = float(np.linalg.norm(v))
    leak = float(np.abs(v[outside]).max()) if outside.any() else 0.0
    return leak, nrm


# ------------------------------------------------------------------------------------------
# label invariant, trees
# ------------------------------------------------------------------------------------------
def tree_label_problems(ttns, rel=1e-10, operator=False):
    """node.qn are subtree (left) labels of the bond to the parent; root.qn == [qntot].
    For every non-zero entry: sum child labels + sum physical charges == parent-bond label."""
    probs = []
    k = ttns.basis.qn_size
    for idx, node in enumerate(ttns.node_list):
        T = np.asarray(node.tensor)
        nch = len(node.children)
        bsets = ttns.basis.node_list[idx].basis_sets
        acc = np.zeros((1, k), dtype=int)  # flattened over (children..., physical...)
        ok = True
        for c in range(nch):
            q = np.asarray(node.children[c].qn).reshape(-1, k).astype(int)
            if q.shape[0] != T.shape[c]:
                ok = False
                break
            acc = (acc[:, None, :] + q[None, :, :]).reshape(-1, k)
        if not ok:
            probs.append((idx, "label-length"))
            continue
        for b in bsets:
            s = sigmaqn_of(b, k)
            if operator:
                s = (s[:, None, :] - s[None, :, :]).reshape(-1, k)
            acc = (acc[:, None, :] + s[None, :, :]).reshape(-1, k)
        qp = np.asarray(node.qn).reshape(-1, k).astype(int)
        if qp.shape[0] != T.shape[-1] or acc.shape[0] * qp.shape[0] != T.size:
            probs.append((idx, "label-length"))
            continue
        if node.parent is None and qp.shape[0] != 1:
            probs.append((idx, "root-label"))
        T2 = T.reshape(acc.shape[0], qp.shape[0])
        amax = float(np.abs(T2).max())
        if amax == 0:
            continue
        d = acc[:, None, :] - qp[None, :, :]
        bad = (np.abs(T2) > rel * amax) & np.any(d != 0, axis=-1)
        if bad.any():
            probs.append((idx, "nonzero-outside-block"))
    return probs


def tree_dense(ttns):
    """dense tensor by own recursive contraction; axes ordered as basis.basis_list (pre-order:
    node physical indices first, then the children's subtrees)"""
    def rec(node):
        # returns array with axes (phys of node..., subtree of children..., parent)
        T = np.asarray(node.tensor)
        nch = len(node.children)
        nphys = T.ndim - nch - 1
        # move children axes behind: (phys..., parent, children...)
        cur = np.moveaxis(T, list(range(nch)), list(range(T.ndim - nch, T.ndim)))
        # cur axes: phys..., parent, c0, c1, ...
        for c in range(nch):
            sub = rec(node.children[c])  # (..., bond)
            # contract the first remaining child axis (position nphys+1+extra) with sub's last axis
            pos = cur.ndim - (nch - c)
            cur = np.tensordot(cur, sub, axes=([pos], [sub.ndim - 1]))
            # tensordot puts sub's free axes at the end; remaining children axes are now before
            # them -> move remaining children axes to the end again
            nrem = nch - c - 1
            if nrem:
                src = list(range(pos, pos + nrem))
                dst = list(range(cur.ndim - nrem, cur.ndim))
                cur = np.moveaxis(cur, src, dst)
        # cur axes: phys..., parent, subtree(c0)..., subtree(c1)...
        cur = np.moveaxis(cur, nphys, -1)
        return cur

    full = rec(ttns.root)
    assert full.shape[-1] == 1
    return full[..., 0]


def tree_subtree_axes(ttns):
    """for every node index: list of dense axes (positions in basis.basis_list) of its subtree"""
    blist = ttns.basis.basis_list
    pos = {id(b): i for i, b in enumerate(blist)}
    res = {}

    def rec(bnode):
        axes = [pos[id(b)] for b in bnode.basis_sets]
        for ch in bnode.children:
            axes += rec(ch)
        res[ttns.basis.node_idx[bnode]] = sorted(axes)
        return axes

    rec(ttns.basis.root)
    return res


# ------------------------------------------------------------------------------------------
# dense singular spectra of bipartitions
# ------------------------------------------------------------------------------------------
def cut_spectrum(tensor, left_axes):
    """singular values (descending) of the bipartition left_axes | rest of a dense tensor"""
    t = np.asarray(tensor)
    left_axes = list(left_axes)
    right_axes = [a for a in range(t.ndim) if a not in left_axes]
    m = np.transpose(t, left_axes + right_axes).reshape(
        int(np.prod([t.shape[a] for a in left_axes], dtype=np.int64)) if left_axes else 1, -1)
    if m.shape[0] == 0 or m.shape[1] == 0:
        return np.zeros(0)
    return np.linalg.svd(m, compute_uv=False)


def tail_weight(s, m):
    """sum of squared singular values beyond the first m"""
    m = int(max(m, 0))
    return float(np.sum(np.asarray(s[m:], dtype=float) ** 2))


# ------------------------------------------------------------------------------------------
# operators with a definite charge
# ------------------------------------------------------------------------------------------
def conserving_terms(rng, spec, k, nterms, complex_factors=False):
    """random list of Op with total charge 0 built from the generator's own knowledge of the
    symbols (every qn given explicitly so that no library default is relied upon)."""
    from renormalizer import Op
    n = len(spec)
    zero = [0] * k
    cand = []

    def unit(comp, sign=1):
        v = [0] * k
        v[comp] = sign
        return v

    esites = [(i, s[1]) for i, s in enumerate(spec) if s[0] == "e"]
    for i, c in esites:
        cand.append(("num_e", i, c))
    for a in range(len(esites)):
        for b in range(len(esites)):
            if a != b and esites[a][1] == esites[b][1]:
                cand.append(("hop_e", esites[a][0], esites[b][0], esites[a][1]))
    ssites = [i for i, s in enumerate(spec) if s[0] == "s"]
    for i in ssites:
        cand.append(("z", i))
        cand.append(("pm", i))
    for a in ssites:
        for b in ssites:
            da, db = _spin_delta(spec[a], k), _spin_delta(spec[b], k)
            if a != b and (np.array_equal(da, db) or np.array_equal(da, -db)):
                cand.append(("hop_s", a, b))
    for i, s in enumerate(spec):
        if s[0] == "s0":
            cand.append(("x0", i))
            cand.append(("z", i))
        if s[0] == "v":
            cand.append(("bb", i))
            cand.append(("x", i))
        if s[0] == "mv":
            for a in range(s[1]):
                for b in range(s[1]):
                    cand.append(("mv", i, a, b))
        if s[0] == "me":
            for a in range(len(s[1])):
                for b in range(len(s[1])):
                    if s[1][a] == s[1][b]:
                        cand.append(("me", i, a, b))
    # cross couplings: number x displacement, number x number
    if not cand:
        cand.append(("id", 0))
    terms = []
    desc = []
    for _ in range(nterms):
        factors = []
        nf = 1 + int(rng.random() < 0.5) + int(rng.random() < 0.2)
        used = set()
        q_total = np.zeros(k, dtype=int)
        for _f in range(nf):
            c = cand[int(rng.integers(len(cand)))]
            sites = (c[1], c[2]) if c[0] in ("hop_e", "hop_s") else (c[1],)
            if any(s_ in used for s_ in sites):
                continue
            used.update(sites)
            factors.append(c)
        if not factors:
            continue
        sym, dofs, qns = [], [], []
        ok = True
        for c in factors:
            t = c[0]
            if t == "num_e":
                sym += [r"a^\dagger", "a"]
                dofs += [("e", c[1])] * 2
                qns += [unit(c[2]), unit(c[2], -1)]
            elif t == "hop_e":
                sym += [r"a^\dagger", "a"]
                dofs += [("e", c[1]), ("e", c[2])]
                qns += [unit(c[3]), unit(c[3], -1)]
            elif t == "z":
                sym += ["sigma_z"]
                dofs += [("s", c[1])]
                qns += [zero]
            elif t == "pm":
                sym += ["sigma_+", "sigma_-"]
                dofs += [("s", c[1])] * 2
                d = _spin_delta(spec[c[1]], k)
                qns += [list(d), list(-d)]
            elif t == "hop_s":
                da = _spin_delta(spec[c[1]], k)
                db = _spin_delta(spec[c[2]], k)
                # sigma_+ on a (charge da) times the operator on b with charge -da if available
                if np.array_equal(da, db):
                    sym += ["sigma_+", "sigma_-"]
                    qns += [list(da), list(-db)]
                elif np.array_equal(da, -db):
                    sym += ["sigma_+", "sigma_+"]
                    qns += [list(da), list(db)]
                else:
                    ok = False
                    break
                dofs += [("s", c[1]), ("s", c[2])]
            elif t == "x0":
                sym += ["sigma_x"]
                dofs += [("s", c[1])]
                qns += [zero]
            elif t == "bb":
                sym += [r"b^\dagger", "b"]
                dofs += [("v", c[1])] * 2
                qns += [zero, zero]
            elif t == "x":
                sym += [r"b^\dagger+b"]
                dofs += [("v", c[1])]
                qns += [zero]
            elif t == "mv":
                sym += [r"a^\dagger", "a"]
                dofs += [("m", c[1], c[2]), ("m", c[1], c[3])]
                qns += [unit(0), unit(0, -1)]
            elif t == "me":
                sq = [np.array(q if isinstance(q, (list, tuple)) else [q]) for q in spec[c[1]][1]]
                d = sq[c[2]] - sq[c[3]]
                if np.any(d != 0):
                    ok = False  # intra-site transfer between different charges is not conserving
                    break
                sym += [r"a^\dagger", "a"]
                dofs += [("m", c[1], c[2]), ("m", c[1], c[3])]
                # any split of a zero total is fine as far as the bond labels are concerned: the
                # two symbols live on one site and are merged by the library
                qns += [zero, zero]
            elif t == "id":
                sym += ["I"]
                dofs += [_any_dof(spec, 0)]
                qns += [zero]
        if not ok or not sym:
            continue
        fac = float(np.round(rng.normal(), 3)) or 0.5
        if complex_factors:
            fac = complex(fac, float(np.round(rng.normal(), 3)))
        # the replacement of "b^\dagger+b" by the spaced form is what Op expects
        symbol = " ".join(sym).replace(r"b^\dagger+b", r"b^\dagger + b")
        terms.append(Op(symbol, dofs, fac, qn=qns))
        desc.append([symbol, [list(d) if isinstance(d, tuple) else d for d in dofs], jsonable(fac), qns])
    return terms, desc


def _spin_delta(s, k):
    """charge of sigma_+ = |0><1| on a ("s", q0, q1) site: q0 - q1"""
    q0 = np.array(s[1] if isinstance(s[1], (list, tuple)) else [s[1]])
    q1 = np.array(s[2] if isinstance(s[2], (list, tuple)) else [s[2]])
    return q0 - q1


def _any_dof(spec, i):
    t = spec[i][0]
    if t == "e":
        return ("e", i)
    if t in ("s", "s0"):
        return ("s", i)
    if t == "v":
        return ("v", i)
    if t in ("mv", "me"):
        return ("m", i, 0)
    return ("d", i)


def hermitian_conserving_terms(rng, spec, k, nterms):
    """conserving terms plus their adjoints (real factors) – a Hermitian, charge-0 Hamiltonian.
    The adjoint is formed symbolically: reverse the factor order, dagger every symbol."""
    from renormalizer import Op
    terms, desc = conserving_terms(rng, spec, k, nterms)
    dag = {r"a^\dagger": "a", "a": r"a^\dagger", "sigma_+": "sigma_-", "sigma_-": "sigma_+",
           "sigma_z": "sigma_z", "sigma_x": "sigma_x", r"b^\dagger": "b", "b": r"b^\dagger",
           r"b^\dagger+b": r"b^\dagger+b", "I": "I"}
    out, odesc = [], []
    for (symbol, dofs, fac, qns) in desc:
        syms = symbol.replace(r"b^\dagger + b", r"b^\dagger+b").split(" ")
        dofs_t = [tuple(d) if isinstance(d, list) else d for d in dofs]
        for (ss, dd, qq) in ((syms, dofs_t, qns),
                             ([dag[x] for x in syms[::-1]], dofs_t[::-1], [[-v for v in q] for q in qns[::-1]])):
            sy = " ".join(ss).replace(r"b^\dagger+b", r"b^\dagger + b")
            out.append(Op(sy, list(dd), fac, qn=[list(q) for q in qq]))
            odesc.append([sy, [list(d) for d in dd], fac, [list(q) for q in qq]])
    return out, odesc


def terms_from_desc(desc):
    from renormalizer import Op
    out = []
    for (symbol, dofs, fac, qns) in desc:
        if isinstance(fac, list):
            fac = complex(fac[0], fac[1])
        out.append(Op(symbol, [tuple(d) if isinstance(d, list) else d for d in dofs], fac, qn=[list(q) for q in qns]))
    return out


def charged_terms(rng, spec, k, nterms=2):
    """terms that all carry the same non-zero charge q: creation/annihilation on e / s / mv sites.
    returns (terms, desc, q) or None"""
    from renormalizer import Op
    cands = []
    for i, s in enumerate(spec):
        if s[0] == "e":
            v = [0] * k
            v[s[1]] = 1
            cands.append((r"a^\dagger", ("e", i), v))
            cands.append(("a", ("e", i), [-x for x in v]))
        elif s[0] == "s":
            d = _spin_delta(s, k)
            cands.append(("sigma_+", ("s", i), [int(x) for x in d]))
            cands.append(("sigma_-", ("s", i), [int(-x) for x in d]))
        elif s[0] == "mv":
            for j in range(s[1]):
                cands.append((r"a^\dagger", ("m", i, j), [1]))
                cands.append(("a", ("m", i, j), [-1]))
    if not cands:
        return None
    first = cands[int(rng.integers(len(cands)))]
    q = first[2]
    same = [c for c in cands if c[2] == q]
    terms, desc = [], []
    chosen = [first] + [same[int(rng.integers(len(same)))] for _ in range(nterms - 1)]
    seen = set()
    for c in chosen:
        if c[1] in seen:
            continue
        seen.add(c[1])
        fac = float(np.round(rng.normal(), 3)) or 1.0
        terms.append(Op(c[0], [c[1]], fac, qn=[list(c[2])]))
        desc.append([c[0], [list(c[1])], fac, [list(c[2])]])
    return terms, desc, list(q)
