r"""C15 failing-input search: the symbolic operator algebra (renormalizer/model/op.py) is a faithful
homomorphism into matrices.

Method.  A case is a small random *universe* (1-3 sites: half spins, harmonic oscillators, simple
electrons, one multi-electron site with vacuum; 1 or 2 quantum-number components; int / str / tuple
DoF names) and a random straight-line *program* over Op / OpSum values (leaves, Op.identity,
+ - * / with int/float/complex/NumPy scalars on either side, Op*Op, Op*OpSum, OpSum*Op, OpSum*OpSum,
plain-list operands, builtin sum, +=, Op.product, OpSum.product, unary -, squeeze_identity,
simplify(atol), copy).  Every variable carries a *shadow* dense matrix that is computed only from the
matrices of its operands with NumPy (+, -, @, scalar *): the matrix of a leaf is
factor * prod_k embed(M[sym_k], dof_k) in written order, where M[sym] is the one-symbol matrix of the
basis set of that DoF.  After every statement the library result is denoted independently
(own tokeniser of .symbol, .dofs, .factor, Kronecker embedding) and compared with the shadow; the
operands must still denote their own shadows (no hidden mutation).  Further oracles:
 * quantum numbers: product = concatenation, total = sum, squeeze/simplify keep totals;
 * simplify: result equals the original minus the independently grouped terms whose merged factor
   is <= atol; no two result terms are same_term; no identity factor survives next to another symbol;
 * split_elementary: one elementary operator per site, ascending sites, factors 1, product of the
   pieces times the returned factor denotes the operator;
 * ==, !=, hash, to_tuple, same_term consistency on twins built through different constructor routes;
 * Model(...)+Mpo(...).todense() (the library pipeline incl. check_operator_terms) for spin/electron
   universes against the shadow.
Tolerance: 1e-12 * bound, bound = the same expression evaluated on |factor| * prod ||M|| (>= every
intermediate), i.e. ~ 64 eps * (#flops of a tiny program) * scale.

Stable signatures:
 * "squeeze_identity:qn2-identity-factor:raises"  (DESIGN §7 D4; fired on the pinned tree, silent since the
   `fix:` commit f24f8df "Op.squeeze_identity accepts multi-component zero quantum numbers")
 * "opsum-mul:0d-int-ndarray-negative:list-repetition"  (OpSum * np.array(-k) falls through to
   list repetition and silently returns the empty sum; still fires.  Set INCLUDE_0D_ARRAY = False to take
   0-d arrays out of the scalar domain.)
Observation (not a violation, excluded by the generator): the bare spin alias "+" between "b^\dagger" and a
symbol starting with "b" makes Op.product build the string "b^\dagger + b...", which Op.__init__ reads as the
single symbol "b^\dagger + b" and rejects with ValueError.
"""
import logging

import numpy as np

INCLUDE_0D_ARRAY = True     # 0-d integer ndarray as scalar operand (Op.__add__ explicitly knows ndarray)
MAX_TERMS = 48

SIG_D4 = "squeeze_identity:qn2-identity-factor:raises"
SIG_0D = "opsum-mul:0d-int-ndarray-negative:list-repetition"


# ------------------------------------------------------------------------------------ universe
class Universe:
    def __init__(self, rng):
        from renormalizer.model import Op
        from renormalizer.model.basis import BasisHalfSpin, BasisSHO, BasisSimpleElectron, BasisMultiElectronVac
        self.qn_size = 2 if rng.random() < 0.4 else 1
        nsite = int(rng.choice([1, 2, 2, 3, 3]))
        names = [0, 1, 2, "v", "e1", ("e", 0), ("ph", 1, 2), 7, "s"]
        order = list(rng.permutation(len(names)))
        pool = [names[i] for i in order]
        self.basis = []
        self.kinds = []
        self.dof_site = {}
        self.dof_kind = {}
        self.spec = []
        have_mev = False
        for s in range(nsite):
            kinds = ["spin", "spin", "sho", "elec"]
            if self.qn_size == 1 and not have_mev:
                kinds.append("mev")
            k = str(rng.choice(kinds))
            if k == "spin":
                d = pool.pop()
                b = BasisHalfSpin(d) if self.qn_size == 1 else BasisHalfSpin(d, [[0, 0], [0, 0]])
                self.spec.append(["spin", repr(d)])
                dofs = [d]
            elif k == "sho":
                d = pool.pop()
                om = float(rng.choice([0.5, 1.0, 1.3, 2.0]))
                nb = int(rng.choice([2, 3]))
                b = BasisSHO(d, om, nb)
                self.spec.append(["sho", repr(d), om, nb])
                dofs = [d]
            elif k == "elec":
                d = pool.pop()
                if self.qn_size == 1:
                    b = BasisSimpleElectron(d)
                else:
                    b = BasisSimpleElectron(d, [[0, 0], [1, 0]] if rng.random() < 0.5 else [[0, 0], [0, 1]])
                self.spec.append(["elec", repr(d)])
                dofs = [d]
            else:
                have_mev = True
                dofs = [pool.pop(), pool.pop()]
                b = BasisMultiElectronVac(dofs)
                self.spec.append(["mev", repr(dofs)])
            self.basis.append(b)
            self.kinds.append(k)
            for d in dofs:
                self.dof_site[d] = s
                self.dof_kind[d] = k
        self.dofs = list(self.dof_site.keys())
        self.dims = [b.nbas for b in self.basis]
        self.dim = int(np.prod(self.dims))
        self.qn_consistent = len({b.sigmaqn.shape[1] for b in self.basis}) == 1 and \
            self.basis[0].sigmaqn.shape[1] == self.qn_size
        self._emb = {}
        self._Op = Op

    SYMS = {
        "spin": ["I", "X", "Y", "Z", "sigma_x", "sigma_y", "sigma_z", "sigma_+", "sigma_-", "+", "-", "iY"],
        "sho": ["I", "b", r"b^\dagger", "x", "p", "n", r"b^\dagger + b", r"b^\dagger+b", "dx"],
        "elec": ["I", "a", r"a^\dagger"],
        "mev": ["I", "a", r"a^\dagger"],
    }

    def local(self, tok, dof):
        """one-symbol matrix of the basis set (token already normalised)"""
        b = self.basis[self.dof_site[dof]]
        if self.dof_kind[dof] == "mev":
            return np.asarray(b.op_mat(self._Op(tok, dof)))
        return np.asarray(b.op_mat(tok))

    def emb(self, tok, dof):
        key = (tok, dof)
        if key not in self._emb:
            m = self.local(tok, dof)
            s = self.dof_site[dof]
            left = int(np.prod(self.dims[:s]))
            right = int(np.prod(self.dims[s + 1:]))
            full = np.kron(np.kron(np.eye(left), m), np.eye(right)).astype(complex)
            self._emb[key] = (full, max(1.0, float(np.linalg.norm(m, 2))))
        return self._emb[key]


def tokenize(symbol):
    return symbol.replace(r"b^\dagger + b", r"b^\dagger+b").split(" ")


def den_op(u, op):
    """independent denotation of a library Op; returns (matrix, structural problem or None)"""
    toks = tokenize(op.symbol)
    if len(toks) != len(op.dofs):
        return None, f"len(symbols)={len(toks)} != len(dofs)={len(op.dofs)}"
    if list(op.split_symbol) != toks:
        return None, f"split_symbol {op.split_symbol} != tokens of symbol {toks}"
    if len(op.qn_list) != len(toks):
        return None, f"len(qn_list)={len(op.qn_list)} != len(symbols)={len(toks)}"
    m = np.eye(u.dim, dtype=complex)
    for t, d in zip(toks, op.dofs):
        if d not in u.dof_site:
            return None, f"unknown dof {d!r}"
        m = m @ u.emb(t, d)[0]
    return complex(op.factor) * m, None


def den(u, obj):
    from renormalizer.model import Op
    if isinstance(obj, Op):
        return den_op(u, obj)
    if isinstance(obj, list):
        tot = np.zeros((u.dim, u.dim), dtype=complex)
        for t in obj:
            if not isinstance(t, Op):
                return None, f"element of type {type(t).__name__} in sum"
            m, p = den_op(u, t)
            if p:
                return None, p
            tot = tot + m
        return tot, None
    return None, f"result type {type(obj).__name__}"


def describe(obj):
    from renormalizer.model import Op
    if isinstance(obj, Op):
        return ["Op", obj.symbol, [repr(d) for d in obj.dofs], repr(obj.factor), [q.tolist() for q in obj.qn_list]]
    if isinstance(obj, list):
        return [type(obj).__name__] + [describe(t) for t in obj[:12]]
    return repr(obj)[:200]


# ------------------------------------------------------------------------------------ values
class Var:
    __slots__ = ("obj", "mat", "bound", "name")

    def __init__(self, obj, mat, bound, name):
        self.obj, self.mat, self.bound, self.name = obj, mat, bound, name

    @property
    def is_op(self):
        from renormalizer.model import Op
        return isinstance(self.obj, Op)

    @property
    def nterms(self):
        return 1 if self.is_op else len(self.obj)


def rand_scalar(rng, nonzero=False, allow_0d=False):
    """returns (python-side operand, complex value, kind)"""
    kinds = ["int", "float", "complex", "np.float64", "np.int64", "np.complex128", "bool"]
    if allow_0d and INCLUDE_0D_ARRAY:
        kinds += ["0d-int"]
    k = str(rng.choice(kinds))
    iv = int(rng.choice([-3, -2, -1, 1, 2, 3] if nonzero else [-3, -2, -1, 0, 1, 2, 3]))
    fv = float(rng.choice([-2.5, -0.75, -0.5, 0.25, 0.5, 1.5, 4.0, 1e-3] if nonzero else
                          [-2.5, -0.75, -0.5, 0.0, 0.25, 0.5, 1.5, 4.0, 1e-3]))
    cv = complex(fv, float(rng.choice([-1.0, 0.5, 2.0])))
    if k == "int":
        return iv, complex(iv), k
    if k == "float":
        return fv, complex(fv), k
    if k == "complex":
        return cv, cv, k
    if k == "np.float64":
        return np.float64(fv), complex(fv), k
    if k == "np.float32":
        return np.float32(fv), complex(float(np.float32(fv))), k
    if k == "np.int64":
        return np.int64(iv), complex(iv), k
    if k == "np.complex128":
        return np.complex128(cv), cv, k
    if k == "bool":
        return True, 1 + 0j, k
    return np.array(iv), complex(iv), k


def rand_qn(u, rng, tok):
    if tok == "I":
        return [0] * u.qn_size
    if tok == r"a^\dagger":
        base = 1
    elif tok == "a":
        base = -1
    else:
        base = int(rng.choice([0, 0, 0, 1, -1]))
    if u.qn_size == 1:
        return [base]
    return [base, 0] if rng.random() < 0.5 else [0, base]


def make_leaf(u, rng, run):
    """a random Op built through a random constructor route; returns (Op, matrix, bound, replay)"""
    from renormalizer.model import Op
    from renormalizer.utils import Quantity
    n = int(rng.choice([1, 1, 2, 2, 3, 4]))
    toks, dofs = [], []
    share = rng.random() < 0.3
    d0 = u.dofs[int(rng.integers(len(u.dofs)))]
    for _ in range(n):
        d = d0 if share else u.dofs[int(rng.integers(len(u.dofs)))]
        syms = u.SYMS[u.dof_kind[d]]
        if u.dof_kind[d] == "spin" and "sho" in u.kinds:
            # the bare alias "+" next to "b^\dagger" and a following "b..." is read by Op.__init__ as the single
            # symbol "b^\dagger + b" (string replace) and rejected with ValueError: not an accepted expression
            syms = [x for x in syms if x != "+"]
        t = "I" if rng.random() < 0.25 else str(rng.choice(syms))
        toks.append(t)
        dofs.append(d)
    symbol = " ".join(toks)
    fk = str(rng.choice(["int", "float", "complex", "np", "quantity", "default"]))
    if fk == "int":
        f = int(rng.choice([-2, -1, 1, 2, 3]))
    elif fk == "float":
        f = float(rng.choice([-1.5, -0.5, 0.25, 0.5, 2.0, 1e-4]))
    elif fk == "complex":
        f = complex(float(rng.choice([-1.0, 0.0, 0.5])), float(rng.choice([-2.0, 0.5, 1.0])))
    elif fk == "np":
        f = [np.float64(0.75), np.int64(-2), np.complex128(0.5 - 1j)][int(rng.integers(3))]
    elif fk == "quantity":
        f = Quantity(float(rng.choice([-0.5, 0.125, 2.0])), "a.u.")
    else:
        f = None
    fval = 1.0 if f is None else (f.value if fk == "quantity" else complex(f))
    # qn
    use_default_qn = u.qn_size == 1 and rng.random() < 0.4
    qns = [rand_qn(u, rng, t) for t in toks]
    if use_default_qn:
        qn_arg = None
        qns = [[1] if t == r"a^\dagger" else [-1] if t == "a" else [0] for t in toks]
    elif n == 1 and u.qn_size == 1 and rng.random() < 0.5:
        qn_arg = qns[0][0]
    elif u.qn_size == 1 and rng.random() < 0.5:
        qn_arg = [q[0] for q in qns]
    else:
        qn_arg = [np.array(q) if rng.random() < 0.5 else list(q) for q in qns]
    # dof argument
    if n == 1:
        dof_arg = dofs[0] if rng.random() < 0.5 else [dofs[0]]
    elif len(set(map(repr, dofs))) == 1 and rng.random() < 0.5:
        dof_arg = dofs[0]
    else:
        dof_arg = list(dofs)
    args = [symbol, dof_arg]
    kw = {}
    if f is not None:
        args.append(f)
    if qn_arg is not None:
        kw["qn"] = qn_arg
    op = Op(*args, **kw)
    m = np.eye(u.dim, dtype=complex)
    bound = abs(fval)
    for t, d in zip(tokenize(symbol), dofs):
        e, nrm = u.emb(t, d)
        m = m @ e
        bound *= nrm
    m = complex(fval) * m
    run.count("leaf:nsym=%d" % n)
    run.count("leaf:factor=" + fk)
    # constructor bookkeeping: fields must reflect the arguments
    exp_qn = [list(q) for q in qns]
    got_qn = [q.tolist() for q in op.qn_list]
    prob = None
    if got_qn != exp_qn:
        prob = f"qn_list {got_qn} != {exp_qn}"
    if list(op.dofs) != dofs:
        prob = f"dofs {op.dofs} != {dofs}"
    if complex(op.factor) != complex(fval):
        prob = f"factor {op.factor} != {fval}"
    rep = dict(symbol=symbol, dofs=[repr(d) for d in dofs],
               factor=(f"Quantity({f.value}, 'a.u.')" if fk == "quantity" else repr(f)), qn=repr(qn_arg))
    return op, m, bound, rep, prob, exp_qn


# ------------------------------------------------------------------------------------ program
class Program:
    def __init__(self, run, rng, u, case_id):
        self.run, self.rng, self.u = run, rng, u
        self.vars = []
        self.trace = []
        self.case_id = case_id
        self.flagged = set()

    def replay(self, extra=None):
        r = dict(case=self.case_id, universe=self.u.spec, qn_size=self.u.qn_size, program=self.trace[-40:])
        if extra:
            r.update(extra)
        return r

    def violate(self, sig, extra=None):
        if sig in self.flagged:
            return
        self.flagged.add(sig)
        self.run.violation(sig, self.replay(extra))

    def tol(self, bound):
        return 1e-12 * max(1.0, bound)

    def check_var(self, v, what):
        m, prob = den(self.u, v.obj)
        if prob:
            self.violate(f"{what}:malformed-result", dict(problem=prob, result=describe(v.obj)))
            return False
        err = float(np.max(np.abs(m - v.mat))) if m.size else 0.0
        if not err <= self.tol(v.bound):
            return err
        return True

    def add(self, obj, mat, bound, what):
        v = Var(obj, mat, bound, f"v{len(self.vars)}")
        self.vars.append(v)
        return v

    def pick(self, pred=None):
        c = [v for v in self.vars if pred is None or pred(v)]
        if not c:
            return None
        # favour recent values
        w = np.arange(1, len(c) + 1, dtype=float)
        return c[int(self.rng.choice(len(c), p=w / w.sum()))]

    def aliases(self, v):
        return [w for w in self.vars if w.obj is v.obj]

    # -- one statement ------------------------------------------------------------------
    def step(self):
        from renormalizer.model import Op, OpSum
        rng, u, run = self.rng, self.u, self.run
        kinds = ["leaf", "leaf", "identity", "add", "add", "sub", "mul", "mul", "mul", "smul", "smul", "div",
                 "neg", "iadd", "sum", "product", "sumproduct", "listop", "zero", "squeeze", "simplify",
                 "simplify", "copy", "split", "eqhash"]
        k = str(rng.choice(kinds))
        if len(self.vars) < 2 and k not in ("leaf", "identity"):
            k = "leaf"
        run.count("stmt:" + k)
        fn = getattr(self, "st_" + k)
        fn()

    def exec(self, what, f, must_accept, operands, desc):
        """run a library operation; returns result or None"""
        self.trace.append([what] + desc)
        try:
            return True, f()
        except (TypeError, AssertionError, ValueError, AttributeError, ZeroDivisionError, IndexError) as e:
            self.run.count(f"raised:{what}:{type(e).__name__}")
            if must_accept:
                self.violate(f"{what}:raises:{type(e).__name__}", dict(error=str(e)[:300]))
            return False, e

    def after(self, what, res, mat, bound, operands, expect_type=None, inplace_target=None):
        """record result, compare with shadow, verify operands untouched"""
        from renormalizer.model import Op, OpSum
        if expect_type == "op" and not isinstance(res, Op):
            self.violate(f"{what}:result-type", dict(result=describe(res)))
            return None
        if expect_type == "sum" and not isinstance(res, OpSum):
            self.violate(f"{what}:result-type", dict(result=describe(res), type=type(res).__name__))
            return None
        v = self.add(res, mat, bound, what)
        ok = self.check_var(v, what)
        if ok is not True:
            if ok is not False:
                self.violate(f"{what}:matrix", dict(max_abs_err=ok, tol=self.tol(bound), result=describe(res),
                                                    operands=[describe(o.obj) for o in operands]))
            self.vars.pop()
            v = None
        for o in operands:
            if inplace_target is not None and o.obj is inplace_target.obj:
                continue
            ok2 = self.check_var(o, what + ":operand")
            if ok2 is not True and ok2 is not False:
                self.violate(f"{what}:operand-changed", dict(max_abs_err=ok2, operand=describe(o.obj)))
                # resynchronise shadow so that one defect is reported once
                m, _ = den(self.u, o.obj)
                o.mat = m
        return v

    # leaves
    def st_leaf(self):
        op, m, b, rep, prob, qns = make_leaf(self.u, self.rng, self.run)
        self.trace.append(["leaf", rep])
        if prob:
            self.violate("Op.__init__:fields", dict(problem=prob))
            return
        self.after("Op.__init__", op, m, b, [], "op")

    def st_identity(self):
        from renormalizer.model import Op
        rng, u = self.rng, self.u
        f = float(rng.choice([1.0, -0.5, 2.0]))
        if rng.random() < 0.5:
            d = u.dofs[int(rng.integers(len(u.dofs)))]
            desc = [repr(d), u.qn_size, f]
            ok, res = self.exec("Op.identity", lambda: Op.identity(d, qn_size=u.qn_size, factor=f), True, [], desc)
        else:
            n = int(rng.integers(1, 4))
            ds = [u.dofs[int(rng.integers(len(u.dofs)))] for _ in range(n)]
            desc = [[repr(d) for d in ds], u.qn_size, f]
            ok, res = self.exec("Op.identity", lambda: Op.identity(ds, qn_size=u.qn_size, factor=f), True, [], desc)
        if not ok:
            return
        v = self.after("Op.identity", res, f * np.eye(u.dim, dtype=complex), abs(f), [], "op")
        if v is not None:
            if not res.is_identity or res.qn_size != u.qn_size or np.any(res.qn != 0):
                self.violate("Op.identity:fields", dict(result=describe(res)))

    # binary
    def _two(self):
        a = self.pick()
        b = self.pick()
        return a, b

    def st_add(self):
        a, b = self._two()
        if a.nterms + b.nterms > MAX_TERMS:
            return
        ok, res = self.exec("add", lambda: a.obj + b.obj, True, [a, b], [a.name, b.name])
        if ok:
            self.run.count(f"add:{'op' if a.is_op else 'sum'}+{'op' if b.is_op else 'sum'}")
            self.after("add", res, a.mat + b.mat, a.bound + b.bound, [a, b], "sum")

    def st_sub(self):
        a, b = self._two()
        if a.nterms + b.nterms > MAX_TERMS:
            return
        ok, res = self.exec("sub", lambda: a.obj - b.obj, True, [a, b], [a.name, b.name])
        if ok:
            self.run.count(f"sub:{'op' if a.is_op else 'sum'}-{'op' if b.is_op else 'sum'}")
            self.after("sub", res, a.mat - b.mat, a.bound + b.bound, [a, b], "sum")

    def st_mul(self):
        a, b = self._two()
        if a.nterms * b.nterms > MAX_TERMS or a.bound * b.bound > 1e8:
            return
        nsym = max([len(t.dofs) for t in ([a.obj] if a.is_op else a.obj)] + [0]) + \
            max([len(t.dofs) for t in ([b.obj] if b.is_op else b.obj)] + [0])
        if nsym > 12:
            return
        ok, res = self.exec("mul", lambda: a.obj * b.obj, True, [a, b], [a.name, b.name])
        if not ok:
            return
        kind = f"{'op' if a.is_op else 'sum'}*{'op' if b.is_op else 'sum'}"
        self.run.count("mul:" + kind)
        v = self.after("mul:" + kind, res, a.mat @ b.mat, a.bound * b.bound, [a, b],
                       "op" if (a.is_op and b.is_op) else "sum")
        if v is not None and a.is_op and b.is_op:
            exp = [q.tolist() for q in a.obj.qn_list] + [q.tolist() for q in b.obj.qn_list]
            got = [q.tolist() for q in res.qn_list]
            if got != exp or list(res.dofs) != list(a.obj.dofs) + list(b.obj.dofs):
                self.violate("mul:op*op:qn-or-dof-concatenation", dict(expected_qn=exp, got_qn=got, result=describe(res)))
            elif np.any(np.asarray(res.qn) != np.asarray(a.obj.qn) + np.asarray(b.obj.qn)):
                self.violate("mul:op*op:qn-total", dict(result=describe(res)))

    def st_smul(self):
        a = self.pick()
        s, sv, sk = rand_scalar(self.rng, allow_0d=not a.is_op)
        left = self.rng.random() < 0.5
        must = sk != "0d-int"
        what = f"smul:{'scalar*' if left else ''}{'op' if a.is_op else 'sum'}{'' if left else '*scalar'}"
        if sk == "0d-int" and abs(int(sv.real)) * a.nterms > MAX_TERMS:
            return
        ok, res = self.exec(what, (lambda: s * a.obj) if left else (lambda: a.obj * s), must, [a], [a.name, sk, repr(s)])
        if not ok:
            return
        self.run.count(f"{what}:{sk}")
        if sk == "0d-int":
            # the only route on the pinned tree is list repetition
            m, prob = den(self.u, res)
            if prob is None and float(np.max(np.abs(m - sv * a.mat))) > self.tol(abs(sv) * a.bound):
                if sv.real < 0 and isinstance(res, list) and len(res) == 0:
                    self.violate(SIG_0D, dict(operand=describe(a.obj), scalar=repr(s), result=describe(res)))
                else:
                    self.violate(what + ":0d-int:matrix", dict(operand=describe(a.obj), scalar=repr(s), result=describe(res)))
                return
        self.after(what, res, sv * a.mat, abs(sv) * a.bound, [a], "op" if a.is_op else "sum")

    def st_div(self):
        a = self.pick()
        s, sv, sk = rand_scalar(self.rng, nonzero=True)
        must = not a.is_op        # Op has no __truediv__ on the pinned tree: rejected, not wrong
        ok, res = self.exec("div", lambda: a.obj / s, must, [a], [a.name, sk, repr(s)])
        if ok:
            self.run.count("div:" + sk)
            self.after("div", res, a.mat / sv, a.bound / abs(sv), [a], "op" if a.is_op else "sum")

    def st_neg(self):
        a = self.pick()
        ok, res = self.exec("neg", lambda: -a.obj, True, [a], [a.name])
        if ok:
            v = self.after("neg", res, -a.mat, a.bound, [a], "op" if a.is_op else "sum")
            if v is not None and a.is_op and [q.tolist() for q in res.qn_list] != [q.tolist() for q in a.obj.qn_list]:
                self.violate("neg:qn", dict(result=describe(res)))

    def st_iadd(self):
        a = self.pick(lambda v: not v.is_op)
        b = self.pick()
        if a is None or a.nterms + b.nterms > MAX_TERMS:
            return
        self_add = b.obj is a.obj
        bmat, bbound = b.mat.copy(), b.bound
        target = a.obj
        als = self.aliases(a)

        def f():
            x = a.obj
            x += b.obj
            return x
        ok, res = self.exec("iadd", f, True, [a, b], [a.name, b.name])
        if not ok:
            return
        self.run.count("iadd:" + ("op" if b.is_op else "self" if self_add else "sum"))
        if res is not target:
            self.violate("iadd:not-in-place", dict(result=describe(res)))
            return
        newmat = a.mat + bmat
        newbound = a.bound + bbound
        for w in als:
            w.mat, w.bound = newmat, newbound
        r = self.check_var(a, "iadd")
        if r is not True and r is not False:
            self.violate("iadd:matrix", dict(max_abs_err=r, result=describe(a.obj)))
            m, _ = den(self.u, a.obj)
            for w in als:
                w.mat = m
        if not self_add and not any(w is b for w in als):
            r = self.check_var(b, "iadd:operand")
            if r is not True and r is not False:
                self.violate("iadd:operand-changed", dict(max_abs_err=r))
                b.mat, _ = den(self.u, b.obj)

    def st_sum(self):
        n = int(self.rng.integers(1, 4))
        xs = [self.pick() for _ in range(n)]
        if sum(x.nterms for x in xs) > MAX_TERMS:
            return
        must = xs[0].is_op      # 0 + OpSum is rejected by the pinned tree (TypeError): not an accepted expression
        ok, res = self.exec("builtin-sum", lambda: sum([x.obj for x in xs]), must, xs, [x.name for x in xs])
        if ok:
            self.after("builtin-sum", res, sum(x.mat for x in xs), sum(x.bound for x in xs), xs, "sum")

    def st_zero(self):
        a = self.pick(lambda v: v.is_op)
        if a is None:
            return
        z = [0, 0.0, np.array(0), np.float64(0.0)][int(self.rng.integers(4))]
        left = self.rng.random() < 0.5
        must = not (left and isinstance(z, np.float64))
        ok, res = self.exec("add-zero", (lambda: z + a.obj) if left else (lambda: a.obj + z), must, [a],
                            [a.name, repr(z), "left" if left else "right"])
        if ok:
            self.after("add-zero", res, a.mat, a.bound, [a], "sum")

    def st_listop(self):
        from renormalizer.model import Op
        a = self.pick(lambda v: v.is_op)
        b = self.pick()
        if a is None or b is None:
            return
        terms = [b.obj] if b.is_op else list(b.obj)       # a plain python list of Op
        if len(terms) > 12:
            return
        which = str(self.rng.choice(["op+list", "op*list", "list*op", "sum+list", "sum*list"]))
        if which == "op+list":
            ok, res = self.exec(which, lambda: a.obj + terms, True, [a, b], [a.name, b.name])
            if ok:
                self.after(which, res, a.mat + b.mat, a.bound + b.bound, [a, b], "sum")
        elif which == "op*list":
            ok, res = self.exec(which, lambda: a.obj * terms, True, [a, b], [a.name, b.name])
            if ok:
                self.after(which, res, a.mat @ b.mat, a.bound * b.bound, [a, b], "sum")
        elif which == "list*op":
            ok, res = self.exec(which, lambda: terms * a.obj, True, [a, b], [a.name, b.name])
            if ok:
                self.after(which, res, b.mat @ a.mat, a.bound * b.bound, [a, b], "sum")
        else:
            c = self.pick(lambda v: not v.is_op)
            if c is None or c.nterms * len(terms) > MAX_TERMS or c.bound * b.bound > 1e8:
                return
            if which == "sum+list":
                ok, res = self.exec(which, lambda: c.obj + terms, True, [c, b], [c.name, b.name])
                if ok:
                    self.after(which, res, c.mat + b.mat, c.bound + b.bound, [c, b], "sum")
            else:
                ok, res = self.exec(which, lambda: c.obj * terms, True, [c, b], [c.name, b.name])
                if ok:
                    self.after(which, res, c.mat @ b.mat, c.bound * b.bound, [c, b], "sum")

    def st_product(self):
        from renormalizer.model import Op
        n = int(self.rng.integers(1, 4))
        xs = [self.pick(lambda v: v.is_op) for _ in range(n)]
        if any(x is None for x in xs) or sum(len(x.obj.dofs) for x in xs) > 12:
            return
        ok, res = self.exec("Op.product", lambda: Op.product([x.obj for x in xs]), True, xs, [x.name for x in xs])
        if not ok:
            return
        m = np.eye(self.u.dim, dtype=complex)
        b = 1.0
        for x in xs:
            m = m @ x.mat
            b *= x.bound
        v = self.after("Op.product", res, m, b, xs, "op")
        if v is not None:
            exp = sum([[q.tolist() for q in x.obj.qn_list] for x in xs], [])
            if [q.tolist() for q in res.qn_list] != exp:
                self.violate("Op.product:qn-concatenation", dict(expected=exp, result=describe(res)))

    def st_sumproduct(self):
        from renormalizer.model import OpSum
        n = int(self.rng.integers(1, 4))
        xs = [self.pick() for _ in range(n)]
        if int(np.prod([x.nterms for x in xs])) > MAX_TERMS or np.prod([x.bound for x in xs]) > 1e8:
            return
        if sum(max([len(t.dofs) for t in ([x.obj] if x.is_op else x.obj)] + [0]) for x in xs) > 12:
            return
        ok, res = self.exec("OpSum.product", lambda: OpSum.product([x.obj for x in xs]), True, xs, [x.name for x in xs])
        if not ok:
            return
        m = np.eye(self.u.dim, dtype=complex)
        b = 1.0
        for x in xs:
            m = m @ x.mat
            b *= x.bound
        self.after("OpSum.product", res, m, b, xs, None)

    def st_copy(self):
        a = self.pick(lambda v: not v.is_op)
        if a is None:
            return
        ok, res = self.exec("copy", lambda: a.obj.copy(), True, [a], [a.name])
        if ok:
            if res is a.obj:
                self.violate("copy:alias", {})
                return
            self.after("copy", res, a.mat.copy(), a.bound, [a], "sum")

    # identity squeezing ---------------------------------------------------------------
    def _d4_class(self, op):
        """is `op` in the input class of D4: >= 2 qn components, an 'I' next to another symbol, qn of I zero"""
        toks = tokenize(op.symbol)
        if set(toks) == {"I"} or "I" not in toks:
            return False
        for t, q in zip(toks, op.qn_list):
            if t == "I" and (len(q) < 2 or np.any(q != 0)):
                return False
        return True

    def st_squeeze(self):
        a = self.pick(lambda v: v.is_op)
        if a is None:
            return
        self.trace.append(["squeeze_identity", a.name])
        try:
            res = a.obj.squeeze_identity()
        except ValueError as e:
            self.run.count("raised:squeeze_identity:ValueError")
            if self._d4_class(a.obj) and "ambiguous" in str(e):
                self.violate(SIG_D4, dict(operand=describe(a.obj), error=str(e)[:200]))
            else:
                self.violate("squeeze_identity:raises:ValueError", dict(operand=describe(a.obj), error=str(e)[:200]))
            return
        except (AssertionError, TypeError) as e:
            self.run.count("raised:squeeze_identity:" + type(e).__name__)
            self.violate("squeeze_identity:raises:" + type(e).__name__, dict(operand=describe(a.obj), error=str(e)[:200]))
            return
        v = self.after("squeeze_identity", res, a.mat.copy(), a.bound, [a], "op")
        if v is None:
            return
        toks = tokenize(res.symbol)
        if "I" in toks and set(toks) != {"I"}:
            self.violate("squeeze_identity:identity-left", dict(result=describe(res)))
        if set(toks) == {"I"} and len(toks) != 1:
            self.violate("squeeze_identity:identity-not-single", dict(result=describe(res)))
        if np.any(np.asarray(res.qn) != np.asarray(a.obj.qn)):
            self.violate("squeeze_identity:qn-total", dict(operand=describe(a.obj), result=describe(res)))
        exp_t = [t for t in tokenize(a.obj.symbol) if t != "I"]
        exp_d = [d for t, d in zip(tokenize(a.obj.symbol), a.obj.dofs) if t != "I"]
        if exp_t and (toks != exp_t or list(res.dofs) != exp_d):
            self.violate("squeeze_identity:order", dict(operand=describe(a.obj), result=describe(res)))

    def st_simplify(self):
        a = self.pick(lambda v: not v.is_op)
        if a is None:
            return
        rng = self.rng
        terms = list(a.obj)
        # independent grouping: key = non-identity (token, dof) sequence; pure identities -> ("I", first dof)
        groups = {}
        order = []
        for t in terms:
            toks = tokenize(t.symbol)
            if set(toks) == {"I"}:
                key = (("I", t.dofs[0]),)
            else:
                key = tuple((s, d) for s, d in zip(toks, t.dofs) if s != "I")
            if key not in groups:
                groups[key] = []
                order.append(key)
            groups[key].append(t)
        merged = {k: sum(complex(t.factor) for t in g) for k, g in groups.items()}
        mags = sorted(abs(v) for v in merged.values())
        choice = rng.random()
        if choice < 0.35 or not mags:
            atol = 0
        elif choice < 0.7:
            # between two magnitudes
            i = int(rng.integers(len(mags)))
            atol = mags[i] * 1.5 + 1e-3
        else:
            atol = float(rng.choice([1e-6, 1e-3, 0.3, 1.0, 5.0]))
        fsum = sum(abs(complex(t.factor)) for t in terms) + 1.0
        if any(abs(m - atol) <= 1e-9 * fsum for m in mags):
            self.run.count("simplify:borderline-skipped")
            return
        self.trace.append(["simplify", a.name, atol])
        d4 = any(self._d4_class(t) for t in terms)
        try:
            res = a.obj.simplify() if (atol == 0 and rng.random() < 0.5) else a.obj.simplify(atol=atol)
        except ValueError as e:
            self.run.count("raised:simplify:ValueError")
            if d4 and "ambiguous" in str(e):
                self.violate(SIG_D4, dict(via="simplify", operand=describe(a.obj), error=str(e)[:200]))
            else:
                self.violate("simplify:raises:ValueError", dict(operand=describe(a.obj), error=str(e)[:200]))
            return
        except (AssertionError, TypeError, IndexError) as e:
            self.run.count("raised:simplify:" + type(e).__name__)
            self.violate("simplify:raises:" + type(e).__name__, dict(operand=describe(a.obj), error=str(e)[:200]))
            return
        self.run.count("simplify:atol=0" if atol == 0 else "simplify:atol>0")
        # expected matrix: original minus dropped groups (each dropped merged factor <= atol)
        exp = a.mat.copy()
        ndrop = 0
        for k in order:
            if abs(merged[k]) <= atol:
                ndrop += 1
                m = np.eye(self.u.dim, dtype=complex)
                for s, d in k:
                    m = m @ self.u.emb(s, d)[0]
                exp = exp - merged[k] * m
        self.run.count("simplify:dropped-groups", ndrop)
        self.run.count("simplify:merged-groups", sum(1 for g in groups.values() if len(g) > 1))
        v = self.after("simplify", res, exp, a.bound, [a], "sum")
        if v is None:
            return
        if len(res) != len(order) - ndrop:
            self.violate("simplify:term-count", dict(expected=len(order) - ndrop, got=len(res), operand=describe(a.obj),
                                                     result=describe(res), atol=atol))
        for i, t in enumerate(res):
            toks = tokenize(t.symbol)
            if "I" in toks and set(toks) != {"I"}:
                self.violate("simplify:identity-left", dict(result=describe(res)))
            if not abs(t.factor) > atol:
                self.violate("simplify:negligible-term-kept", dict(result=describe(res), atol=atol))
            for t2 in res[i + 1:]:
                if t.same_term(t2):
                    self.violate("simplify:unmerged-same-terms", dict(result=describe(res)))
            # total qn of a result term is that of some input term of its group
            if set(toks) == {"I"}:
                key = (("I", t.dofs[0]),)
            else:
                key = tuple(zip(toks, t.dofs))
            g = groups.get(key)
            if g is None:
                self.violate("simplify:foreign-term", dict(result=describe(res)))
            elif not any(np.array_equal(np.asarray(t.qn), np.asarray(x.qn)) for x in g):
                self.violate("simplify:qn-total", dict(result=describe(res), operand=describe(a.obj)))

    # split_elementary ------------------------------------------------------------------
    def st_split(self):
        from renormalizer.model import Op
        a = self.pick(lambda v: v.is_op)
        if a is None:
            return
        u = self.u
        mapping = dict(u.dof_site)
        self.trace.append(["split_elementary", a.name])
        try:
            ops, factor = a.obj.split_elementary(mapping)
        except Exception as e:
            self.run.count("raised:split_elementary:" + type(e).__name__)
            self.violate("split_elementary:raises:" + type(e).__name__, dict(operand=describe(a.obj), error=str(e)[:200]))
            return
        if complex(factor) != complex(a.obj.factor):
            self.violate("split_elementary:factor", dict(operand=describe(a.obj), got=repr(factor)))
            return
        m = complex(factor) * np.eye(u.dim, dtype=complex)
        sites = []
        tot_qn = 0
        for e in ops:
            if not isinstance(e, Op) or e.factor != 1:
                self.violate("split_elementary:piece-factor", dict(operand=describe(a.obj), pieces=[describe(x) for x in ops]))
                return
            ss = {u.dof_site.get(d) for d in e.dofs}
            if len(ss) != 1:
                self.violate("split_elementary:piece-spans-sites", dict(operand=describe(a.obj), pieces=[describe(x) for x in ops]))
                return
            sites.append(ss.pop())
            em, prob = den_op(u, e)
            if prob:
                self.violate("split_elementary:malformed-piece", dict(problem=prob))
                return
            m = m @ em
            tot_qn = tot_qn + np.asarray(e.qn)
        if sites != sorted(set(sites)):
            self.violate("split_elementary:site-order", dict(operand=describe(a.obj), sites=sites))
        err = float(np.max(np.abs(m - a.mat)))
        if not err <= self.tol(a.bound):
            self.violate("split_elementary:matrix", dict(max_abs_err=err, operand=describe(a.obj),
                                                         pieces=[describe(x) for x in ops]))
        if np.any(tot_qn != np.asarray(a.obj.qn)):
            self.violate("split_elementary:qn-total", dict(operand=describe(a.obj), pieces=[describe(x) for x in ops]))
        self.run.count("split:sites=%d" % len(sites))
        r = self.check_var(a, "split_elementary:operand")
        if r is not True and r is not False:
            self.violate("split_elementary:operand-changed", dict(max_abs_err=r))

    # equality / hashing ------------------------------------------------------------------
    def st_eqhash(self):
        from renormalizer.model import Op
        rng = self.rng
        pool = []
        for v in self.vars:
            pool.extend([v.obj] if v.is_op else list(v.obj)[:6])
        if not pool:
            return
        a = pool[int(rng.integers(len(pool)))]
        how = str(rng.choice(["twin", "twin", "factor", "qn", "dofs", "symbol", "other"]))
        qn_plain = [q.tolist() for q in a.qn_list]
        f = a.factor
        expect = None
        try:
            if how == "twin":
                # same operator through another constructor route
                f2 = complex(f) if (np.imag(f) == 0 and rng.random() < 0.5) else f
                if np.imag(f) == 0 and rng.random() < 0.3:
                    f2 = np.float64(np.real(f))
                b = Op(str(a.symbol), list(a.dofs), f2, [np.array(q, dtype=float if rng.random() < 0.3 else int) for q in qn_plain])
                expect = True
            elif how == "factor":
                b = Op(a.symbol, list(a.dofs), f * (1 + 2.0 ** -40) + (0 if f != 0 else 1e-30), qn_plain)
                expect = False
            elif how == "qn":
                q2 = [list(q) for q in qn_plain]
                q2[int(rng.integers(len(q2)))][0] += 1
                b = Op(a.symbol, list(a.dofs), f, q2)
                expect = False
            elif how == "dofs":
                d2 = list(a.dofs)
                i = int(rng.integers(len(d2)))
                d2[i] = ("other", repr(d2[i]))
                b = Op(a.symbol, d2, f, qn_plain)
                expect = False
            elif how == "symbol":
                toks = tokenize(a.symbol)
                i = int(rng.integers(len(toks)))
                toks[i] = "Q" if toks[i] != "Q" else "R"
                b = Op(" ".join(toks), list(a.dofs), f, qn_plain)
                expect = False
            else:
                b = pool[int(rng.integers(len(pool)))]
        except Exception as e:
            self.violate("Op.__init__:raises:" + type(e).__name__, dict(how=how, operand=describe(a), error=str(e)[:200]))
            return
        self.run.count("eqhash:" + how)
        self.trace.append(["eqhash", how, describe(a), describe(b)])
        try:
            eq, eq2, ne = (a == b), (b == a), (a != b)
            ta, tb = a.to_tuple(), b.to_tuple()
            ha, hb = hash(a), hash(b)
        except Exception as e:
            self.violate("eq-hash:raises:" + type(e).__name__, dict(a=describe(a), b=describe(b), error=str(e)[:200]))
            return
        info = dict(a=describe(a), b=describe(b), how=how)
        if not isinstance(eq, (bool, np.bool_)):
            self.violate("eq:not-bool", info)
            return
        if bool(eq) != bool(eq2):
            self.violate("eq:asymmetric", info)
        if bool(ne) == bool(eq):
            self.violate("eq:ne-inconsistent", info)
        if bool(eq) != (ta == tb):
            self.violate("eq:differs-from-to_tuple", info)
        if eq and ha != hb:
            self.violate("hash:equal-ops-different-hash", info)
        if ha != hash(ta):
            self.violate("hash:differs-from-to_tuple-hash", info)
        if expect is not None and bool(eq) != expect:
            self.violate("eq:twin-equal-expected" if expect else f"eq:distinct-{how}-compares-equal", info)
        if eq:
            if len({a, b}) != 1 or not a.same_term(b):
                self.violate("eq:set-or-same_term-inconsistent", info)
            ma, pa = den_op(self.u, a)
            mb, pb = den_op(self.u, b)
            if pa is None and pb is None and not np.array_equal(ma, mb):
                self.violate("eq:equal-ops-different-matrix", info)
        st = a.same_term(b)
        if st != (a.symbol == b.symbol and list(a.dofs) == list(b.dofs)):
            self.violate("same_term:definition", info)
        if not (a == a) or hash(a) != hash(a):
            self.violate("eq:irreflexive", info)
        # to_tuple fields
        if ta[0] != a.symbol or list(ta[1]) != list(a.dofs) or ta[2] != a.factor or \
                [list(q) for q in ta[3]] != qn_plain:
            self.violate("to_tuple:fields", info)

    # Model + Mpo pipeline ----------------------------------------------------------------
    def model_route(self):
        from renormalizer.model import Model, Op
        u = self.u
        if not u.qn_consistent or "mev" in u.kinds:
            self.run.count("mpo-route:skipped-universe")
            return
        cands = [v for v in self.vars if not v.is_op and 0 < v.nterms <= 24]
        if not cands:
            return
        v = cands[int(self.rng.integers(len(cands)))]
        for t in v.obj:
            per = {}
            for s, d in zip(tokenize(t.symbol), t.dofs):
                per.setdefault(d, []).append(s)
            for d, ss in per.items():
                if u.dof_kind[d] == "sho" and len(ss) > 1:
                    self.run.count("mpo-route:skipped-sho-compound")
                    return
        self.trace.append(["Model+Mpo.todense", v.name])
        try:
            from renormalizer.mps import Mpo
            terms = list(v.obj)
            wrap = self.rng.random() < 0.5
            model = Model(u.basis, [v.obj] if wrap else terms)      # OpSum element is ravelled by check_operator_terms
            kept = model.ham_terms
            exp_kept = [t for t in terms if t.factor != 0]
            if len(kept) != len(exp_kept) or any(x is not y for x, y in zip(kept, exp_kept)):
                self.violate("check_operator_terms:filter", dict(terms=describe(v.obj), kept=[describe(t) for t in kept]))
                return
            dense = Mpo(model).todense()
        except Exception as e:
            self.run.count("mpo-route:rejected:" + type(e).__name__)
            return
        self.run.count("mpo-route:compared")
        dense = np.asarray(dense)
        if dense.shape != v.mat.shape:
            self.violate("mpo-route:shape", dict(shape=list(dense.shape)))
            return
        err = float(np.max(np.abs(dense - v.mat)))
        if not err <= 1e-10 * max(1.0, v.bound):
            self.violate("mpo-route:matrix", dict(max_abs_err=err, terms=describe(v.obj)))
            return
        # ---- the same expression OBJECTS in a second model that groups two electronic DoFs on one multi-DoF site: what they
        #      denote there may not depend on their having been used in the first model (fresh equal objects are the reference)
        elec = [d for d in u.dofs if u.dof_kind[d] == "elec"]
        if len(elec) >= 2 and u.qn_size == 1:
            from renormalizer.model.basis import BasisMultiElectronVac
            i1, i2 = sorted(int(x) for x in self.rng.choice(len(elec), size=2, replace=False))
            d1, d2 = elec[i1], elec[i2]
            basis_b = []
            for b in u.basis:
                if b.dofs[0] == d1:
                    basis_b.append(BasisMultiElectronVac([d1, d2] if self.rng.random() < 0.5 else [d2, d1]))
                elif b.dofs[0] != d2:
                    basis_b.append(b)

            def ev(term_list):
                try:
                    return np.asarray(Mpo(Model(basis_b, term_list)).todense())
                except Exception as e:  # noqa
                    return type(e).__name__
            fresh = [Op(t.symbol, list(t.dofs), t.factor, [np.asarray(q).tolist() for q in t.qn_list] if u.qn_size > 1 else
                        [int(np.asarray(q).ravel()[0]) for q in t.qn_list]) for t in terms]
            used, ref_b = ev(terms), ev(fresh)
            again = None
            try:
                again = np.asarray(Mpo(Model(u.basis, terms)).todense())
            except Exception as e:  # noqa
                again = type(e).__name__
            self.run.count("two-layouts:" + ("compared" if isinstance(ref_b, np.ndarray) else "rejected-in-second-layout"))
            same_b = (isinstance(used, str) and used == ref_b) or (isinstance(used, np.ndarray) and isinstance(ref_b, np.ndarray)
                                                                     and used.shape == ref_b.shape and np.allclose(used, ref_b, atol=1e-10 * max(1.0, v.bound)))
            if not same_b:
                self.violate("two-layouts:used-objects-differ-from-fresh-equal-objects",
                             dict(terms=describe(v.obj), grouped=[repr(d1), repr(d2)], used=used if isinstance(used, str) else "matrix",
                                  fresh=ref_b if isinstance(ref_b, str) else "matrix"))
            elif not (isinstance(again, np.ndarray) and again.shape == dense.shape and np.allclose(again, dense, atol=1e-10 * max(1.0, v.bound))):
                self.violate("two-layouts:first-model-result-changed-after-use-in-second",
                             dict(terms=describe(v.obj), grouped=[repr(d1), repr(d2)], again=again if isinstance(again, str) else "matrix"))

    def final_check(self):
        for v in self.vars:
            r = self.check_var(v, "final")
            if r is not True and r is not False:
                self.violate("final:variable-changed-behind-the-back", dict(var=v.name, max_abs_err=r, value=describe(v.obj)))


def search(run, rng, quick):
    import renormalizer  # noqa: F401  (init_log runs on import)
    logging.getLogger("renormalizer").setLevel(logging.ERROR)
    ncases = 1200 if quick else 30000
    nontrivial = set()
    evals = 0
    for case in range(ncases):
        u = Universe(rng)
        run.count("universe:qn_size=%d" % u.qn_size)
        run.count("universe:sites=" + "+".join(sorted(u.kinds)))
        p = Program(run, rng, u, case)
        nst = int(rng.integers(8, 26))
        for _ in range(nst):
            p.step()
            evals += 1
        p.final_check()
        p.model_route()
        # distinct & non-trivial: programme with >= 1 product and >= 1 sum of >= 2 terms, keyed by its trace
        has_mul = any(t[0] in ("mul", "Op.product", "OpSum.product", "op*list", "list*op", "sum*list") for t in p.trace)
        has_sum = any((not v.is_op) and v.nterms >= 2 for v in p.vars)
        if has_mul and has_sum:
            nontrivial.add(hash(repr(p.trace)))
        if case < 3:
            run.sample(dict(universe=u.spec, qn_size=u.qn_size, program=p.trace[:12],
                            values=[describe(v.obj) for v in p.vars[:4]]))
    run.cov["evaluations"] = run.cov.get("evaluations", 0) + evals
    run.cov["distinct_nontrivial"] = len(nontrivial)
    run.cov["rule"] = ("one evaluation = one program statement checked against its shadow matrix; a program is "
                       "non-trivial when it contains at least one product and one sum with >= 2 terms; distinct by "
                       "the hash of its statement trace")
