"""lib_chain -- shared generators and dense oracles for the chain (Mps / Mpo / MpDm) properties.

Everything here is independent of the code under test except for (a) the constructors of the
library objects that are filled in (``Mps()``, ``Mpo()``, ``MpDm()``, ``Model``, basis classes) and
(b) the *gauge operations* that are deliberately executed by the implementation
(:func:`apply_history`).  Dense amplitudes, quantum-number masks, label checks, isometry checks and
Schmidt ranks are recomputed here with plain NumPy.

Public API (stable; other search modules import it)
---------------------------------------------------
models
    ``random_model_spec(rng, nsite, qn_size=1, max_d=4, neutral=False, min_d=2, kinds=None)`` -> JSON-able spec
    ``build_model(spec)`` -> ``renormalizer.model.Model``      ``spec_of_model(model)`` -> spec
    ``site_qn(model, kind)`` -> per-site arrays ``(P_i, Q)`` of the charge carried by each physical index
    ``site_ops(model, i)`` / ``random_terms(rng, model, nterms, charge=None, cplx=False)`` -> Op terms of one charge
random QN-consistent chains (tensors drawn block pattern first, values second)
    ``random_chain(rng, model, kind, qntot=None, ...)`` -> Mps | Mpo | MpDm  (or None if the sector is empty)
    ``random_mps / random_mpo / random_mpdm`` thin wrappers
    ``library_mps(rng, model, qntot, m_max)`` -> ``Mps.random`` with retries (D15), or None
    ``library_mpo(rng, model, nterms, charge, cplx)`` -> (Mpo built by the library from terms, terms)
    ``feasible_sectors(model, kind)`` -> list of reachable total charges
dense side
    ``dense_chain(mp)`` (no coeff)    ``dense_state(mp)`` = dense_chain * coeff
    ``dense_charges(model)`` -> (dim, Q) charge of every product basis state
    ``sector_support(dense, model, kind, rtol)`` -> set of total charges carrying weight
    ``schmidt_ranks(dense, model, kind)`` -> (ranks per bond 0..n, ambiguous flag)
    ``bond_sectors(dense, model, kind)`` -> per internal bond, the set of left-block charges carrying weight
    ``sector_ranks(dense, model, kind)`` -> per internal bond, {left-block charge: rank of that block}
    ``exact_bond_bound(model, kind)`` -> min(prod left, prod right) per bond
structure checks (independent of the library's own checkers)
    ``kind_of(mp)``  ``left_labels(mp)``  ``check_labels(mp, tol)`` -> list of problems
    ``iso_defect(mp, i, side)`` -> (||A^+A - c I||, c)   ``labels_json / dump_chain / load_chain``
gauge histories (executed by the implementation)
    ``random_history(rng, n, length=None, allow_partial=True)``  ``apply_history(mp, hist)``  ``prep(mp, direction)``
    ``cano(mp, direction)``  ``lossless_compress(mp, direction, m=None)``  ``LOSSLESS_M``
"""
import numpy as np

from renormalizer.model import Model, Op
from renormalizer.model import basis as ba
from renormalizer.mps import Mps, Mpo, MpDm
from renormalizer.utils import CompressConfig, CompressCriteria

LOSSLESS_M = 10 ** 6   # bond limit that can never truncate the small chains generated here


# =====================================================================================  models
def _qvec(q, qn_size):
    q = np.atleast_1d(np.array(q, dtype=int))
    assert q.shape == (qn_size,)
    return [int(x) for x in q]


def random_model_spec(rng, nsite, qn_size=1, max_d=4, neutral=False, min_d=2, kinds=None):
    """Draw a random chain of ``nsite`` local basis sets with ``qn_size`` conserved charges.

    Site kinds: ``se`` BasisSimpleElectron, ``hs`` BasisHalfSpin (with charges), ``me``
    BasisMultiElectron (any dimension 2..max_d, arbitrary charges, all matrix units as operators),
    ``sho`` BasisSHO (neutral, qn_size 1 only), ``mev`` BasisMultiElectronVac (qn_size 1 only).
    ``neutral=True`` gives all charges zero.  ``kinds`` restricts the site kinds, ``min_d`` is the
    smallest dimension of the variable-size kinds.  Returns a list of dicts (JSON-able)."""
    spec = []
    allowed = kinds
    for i in range(nsite):
        kinds = ["se", "hs", "me", "me"]
        if qn_size == 1:
            kinds += ["sho", "mev"]
        if allowed is not None:
            kinds = [k for k in kinds if k in allowed]
        k = kinds[int(rng.integers(len(kinds)))]
        if k == "se":
            if qn_size == 1:
                sq = [[0], [1]]
            else:
                e = [0] * qn_size
                e[int(rng.integers(qn_size))] = 1
                sq = [[0] * qn_size, e]
            d = 2
        elif k == "hs":
            if qn_size == 1:
                sq = [[[0], [0]], [[0], [1]], [[1], [-1]], [[1], [0]], [[-1], [1]]][int(rng.integers(5))]
            else:
                sq = [[int(x) for x in rng.integers(-1, 2, qn_size)] for _ in range(2)]
            d = 2
        elif k == "me":
            d = int(rng.integers(min_d, max_d + 1))
            if qn_size == 1:
                sq = [[int(rng.integers(0, 3))] for _ in range(d)]
            else:
                sq = [[int(x) for x in rng.integers(0, 2, qn_size)] for _ in range(d)]
        elif k == "sho":
            d = int(rng.integers(min_d, max_d + 1))
            sq = [[0]] * d
        else:  # mev: vacuum + (d-1) states of charge 1
            d = int(rng.integers(min_d, max_d + 1))
            sq = [[0]] + [[1]] * (d - 1)
        if neutral:
            sq = [[0] * qn_size for _ in range(d)]
            if k in ("se", "mev"):
                k = "me"
        spec.append(dict(kind=k, d=d, sigmaqn=sq))
    return spec


def build_model(spec):
    """``Model`` (no Hamiltonian terms) from a spec produced by :func:`random_model_spec`."""
    basis = []
    for i, s in enumerate(spec):
        k, d, sq = s["kind"], s["d"], s["sigmaqn"]
        if k == "se":
            b = ba.BasisSimpleElectron(f"e{i}", sigmaqn=[list(q) for q in sq])
        elif k == "hs":
            b = ba.BasisHalfSpin(f"s{i}", sigmaqn=[list(q) for q in sq])
        elif k == "me":
            b = ba.BasisMultiElectron([f"m{i}_{j}" for j in range(d)], [list(q) for q in sq])
        elif k == "sho":
            b = ba.BasisSHO(f"v{i}", omega=1.0 + 0.25 * i, nbas=d)
        elif k == "mev":
            b = ba.BasisMultiElectronVac([f"w{i}_{j}" for j in range(d - 1)])
        else:
            raise ValueError(k)
        assert b.nbas == d and np.array_equal(np.array(b.sigmaqn), np.array(sq)), (k, d, sq, b.sigmaqn)
        basis.append(b)
    return Model(basis, [])


_KIND_OF_BASIS = {"BasisSimpleElectron": "se", "BasisHalfSpin": "hs", "BasisMultiElectron": "me",
                  "BasisSHO": "sho", "BasisMultiElectronVac": "mev"}


def spec_of_model(model):
    """Inverse of :func:`build_model` (for replay files)."""
    return [dict(kind=_KIND_OF_BASIS.get(type(b).__name__, type(b).__name__), d=int(b.nbas),
                 sigmaqn=np.array(b.sigmaqn).astype(int).tolist()) for b in model.basis]


def kind_of(mp):
    """'mps' | 'mpo' | 'mpdm' from the Python class (not from the is_* properties under test)."""
    if isinstance(mp, MpDm):
        return "mpdm"
    if isinstance(mp, Mps):
        return "mps"
    if isinstance(mp, Mpo):
        return "mpo"
    raise TypeError(type(mp))


def site_qn(model, kind):
    """Charge carried by every physical index of every site: list of int arrays ``(P_i, Q)``.
    mps: P=d, sigma[s];  mpo: P=d*d (up major), sigma[u]-sigma[d];  mpdm: P=d*d, sigma[u]."""
    out = []
    for b in model.basis:
        s = np.array(b.sigmaqn, dtype=int)
        d, q = s.shape
        if kind == "mps":
            out.append(s.copy())
        elif kind == "mpo":
            out.append((s[:, None, :] - s[None, :, :]).reshape(d * d, q))
        elif kind == "mpdm":
            out.append((s[:, None, :] + 0 * s[None, :, :]).reshape(d * d, q))
        else:
            raise ValueError(kind)
    return out


def dense_charges(model):
    """(prod d_i, Q) total charge of every product basis state, first site slowest."""
    q = len(np.array(model.basis[0].sigmaqn)[0])
    tot = np.zeros((1, q), dtype=int)
    for b in model.basis:
        s = np.array(b.sigmaqn, dtype=int)
        tot = (tot[:, None, :] + s[None, :, :]).reshape(-1, q)
    return tot


def _reach(sq, start):
    """forward reachable label sets per bond"""
    sets = [{tuple(start)}]
    for s in sq:
        cur = set()
        for l in sets[-1]:
            for x in s:
                cur.add(tuple(int(a + b) for a, b in zip(l, x)))
        sets.append(cur)
    return sets


def feasible_sectors(model, kind="mps"):
    """All total charges reachable by some product configuration (list of tuples, sorted)."""
    sq = site_qn(model, kind)
    q = sq[0].shape[1]
    return sorted(_reach(sq, (0,) * q)[-1])


# =====================================================================================  operators
def site_ops(model, i):
    """Elementary operators of site ``i`` as ``(symbol, dofs, qn_list, charge_tuple, is_complex)``;
    ``Op(symbol, dofs, factor, qn=qn_list)`` is accepted by ``Mpo(model, terms)``."""
    b = model.basis[i]
    s = np.array(b.sigmaqn, dtype=int)
    q = s.shape[1]
    z = [0] * q
    name = type(b).__name__
    ops = []

    def add(sym, dofs, qns, cplx=False):
        qns = [[int(x) for x in v] for v in qns]
        ch = tuple(int(x) for x in np.sum(np.array(qns, dtype=int).reshape(-1, q), axis=0))
        ops.append((sym, dofs, qns, ch, cplx))

    if name == "BasisSimpleElectron":
        dlt = (s[1] - s[0]).tolist()
        add(r"a^\dagger", [b.dof], [dlt])
        add("a", [b.dof], [[-x for x in dlt]])
        add(r"a^\dagger a", [b.dof, b.dof], [dlt, [-x for x in dlt]])
    elif name == "BasisHalfSpin":
        up = (s[0] - s[1]).tolist()      # sigma_+ = |0><1|
        add("sigma_+", [b.dof], [up])
        add("sigma_-", [b.dof], [[-x for x in up]])
        add("sigma_z", [b.dof], [z])
        if not np.any(s[0] - s[1]):
            add("sigma_x", [b.dof], [z])
            add("sigma_y", [b.dof], [z], cplx=True)
    elif name == "BasisSHO":
        for sym in ["x", r"b^\dagger b", "b", r"b^\dagger", "x^2"]:
            add(sym, [b.dof] * len(sym.split(" ")), [z] * len(sym.split(" ")))
        add("p", [b.dof], [z], cplx=True)
    elif name == "BasisMultiElectron":
        for j in range(b.nbas):
            for k in range(b.nbas):
                add(r"a^\dagger a", [b.dof[j], b.dof[k]], [s[j].tolist(), (-s[k]).tolist()])
    elif name == "BasisMultiElectronVac":
        for j in range(b.nbas - 1):
            add(r"a^\dagger", [b.dof[j]], [[1]])
            add("a", [b.dof[j]], [[-1]])
            for k in range(b.nbas - 1):
                add(r"a^\dagger a", [b.dof[j], b.dof[k]], [[1], [-1]])
    else:
        raise ValueError(name)
    return ops


def random_terms(rng, model, nterms, charge=None, cplx=False, max_body=3, tries=400):
    """``nterms`` random product operators (1..max_body sites each) that all carry the same total
    charge.  ``charge=None`` takes the charge of the first term drawn (often non-zero);
    returns ``(terms, charge_tuple)`` or ``(None, None)`` when the charge cannot be realised.
    Duplicated terms are allowed on purpose.  Factors are complex when ``cplx``."""
    n = model.nsite
    allops = [[o for o in site_ops(model, i) if cplx or not o[4]] for i in range(n)]
    terms = []
    for _ in range(tries):
        if len(terms) >= nterms:
            break
        body = int(rng.integers(1, min(max_body, n) + 1))
        sites = sorted(rng.choice(n, size=body, replace=False).tolist())
        sym, dofs, qns = [], [], []
        ch = np.zeros(model.qn_size, dtype=int)
        for i in sites:
            o = allops[i][int(rng.integers(len(allops[i])))]
            sym.append(o[0]); dofs += list(o[1]); qns += list(o[2]); ch = ch + np.array(o[3])
        ch = tuple(int(x) for x in ch)
        if charge is None:
            charge = ch
        if ch != tuple(charge):
            continue
        f = float(rng.choice([-2.0, -1.0, -0.5, 0.5, 1.0, 1.5, 3.0]))
        if cplx:
            f = complex(f, float(rng.choice([-1.0, 0.0, 0.5, 2.0])))
        terms.append(Op(" ".join(sym), dofs, f, qn=[list(v) for v in qns]))
    if not terms:
        return None, None
    return terms, tuple(charge)


def library_mpo(rng, model, nterms=3, charge=None, cplx=False):
    """Operator built by the implementation (``Mpo(model, terms)``) from random same-charge terms.
    Returns ``(mpo, terms, charge)`` or ``(None, None, None)``."""
    terms, ch = random_terms(rng, model, nterms, charge=charge, cplx=cplx)
    if terms is None:
        return None, None, None
    return Mpo(model, terms), terms, ch


# =====================================================================================  chains
_CLS = {"mps": Mps, "mpo": Mpo, "mpdm": MpDm}


def lossless_config():
    """CompressConfig that never truncates the small chains used here."""
    return CompressConfig(CompressCriteria.fixed, max_bonddim=LOSSLESS_M)


def random_chain(rng, model, kind="mps", qntot=None, max_bond=4, cplx=False, coeff=1.0,
                 centre=None, to_right=None, p_dead=0.15, p_dup=0.25, p_one=0.15, bond_dims=None,
                 integer=False):
    """Random QN-consistent chain built directly from tensors (not by the implementation).

    Block pattern first: every internal bond gets a list of left-block labels containing the label
    of one random product configuration ("spine", guarantees a non-zero object), further labels
    drawn with replacement from the labels that can be completed on both sides (duplicates =
    several states per sector, i.e. over-complete bonds when the bond exceeds the exact rank) and
    with probability ``p_dead`` labels reachable from one side only (dead ends: all-zero rows or
    columns, rank-deficient bonds).  With probability ``p_one`` a bond has dimension 1.  Values
    second: normal (complex if ``cplx``; small integers if ``integer``) on the allowed blocks; with
    probability ``p_dup`` one column of a site is made a copy of another column of the same sector
    (exactly linearly dependent bond).

    ``qntot`` (tuple) fixes the sector; None takes the spine's.  ``centre`` = qnidx (default random),
    ``to_right`` default random.  Labels are written for that centre directly:
    ``qn[i] = L_i (i <= centre)``, ``qntot - L_i (i > centre)`` -- no call to ``move_qnidx``.
    Returns None when the sector is empty or the drawn object vanishes."""
    sq = site_qn(model, kind)
    n = len(sq)
    q = sq[0].shape[1]
    fwd = _reach(sq, (0,) * q)
    if qntot is None:
        # spine first, sector from it
        lab = [(0,) * q]
        for s in sq:
            x = s[int(rng.integers(len(s)))]
            lab.append(tuple(int(a + b) for a, b in zip(lab[-1], x)))
        qntot = lab[-1]
    qntot = tuple(int(x) for x in np.atleast_1d(qntot))
    if qntot not in fwd[-1]:
        return None
    # backward feasible labels
    bwd = [None] * (n + 1)
    bwd[n] = {qntot}
    for i in range(n - 1, -1, -1):
        cur = set()
        for l in bwd[i + 1]:
            for x in sq[i]:
                cur.add(tuple(int(a - b) for a, b in zip(l, x)))
        bwd[i] = cur
    feas = [fwd[i] & bwd[i] for i in range(n + 1)]
    # spine inside the feasible sets
    spine = [(0,) * q]
    for i in range(n):
        cands = [x for x in sq[i] if tuple(int(a + b) for a, b in zip(spine[-1], x)) in feas[i + 1]]
        x = cands[int(rng.integers(len(cands)))]
        spine.append(tuple(int(a + b) for a, b in zip(spine[-1], x)))
    labels = [np.zeros((1, q), dtype=int)]
    for i in range(1, n):
        if bond_dims is not None:
            D = int(bond_dims[i])
        elif rng.random() < p_one:
            D = 1
        else:
            D = int(rng.integers(1, max_bond + 1))
        lab = [spine[i]]
        fl = sorted(feas[i])
        dead = sorted((fwd[i] | bwd[i]) - feas[i])
        while len(lab) < D:
            if dead and rng.random() < p_dead:
                lab.append(dead[int(rng.integers(len(dead)))])
            else:
                lab.append(fl[int(rng.integers(len(fl)))])
        lab = [lab[j] for j in rng.permutation(len(lab))]
        labels.append(np.array(lab, dtype=int).reshape(len(lab), q))
    if n >= 1:
        labels.append(np.array([qntot], dtype=int).reshape(1, q))
    tensors = []
    for i in range(n):
        L, R, s = labels[i], labels[i + 1], sq[i]
        mask = np.all(L[:, None, None, :] + s[None, :, None, :] == R[None, None, :, :], axis=-1)
        shape = mask.shape
        if integer:
            val = rng.integers(-3, 4, shape).astype(float)
            if cplx:
                val = val + 1j * rng.integers(-3, 4, shape)
        else:
            val = rng.standard_normal(shape)
            if cplx:
                val = val + 1j * rng.standard_normal(shape)
        t = val * mask
        if i < n - 1 and rng.random() < p_dup and R.shape[0] >= 2:
            # exact linear dependence: copy column a onto column b of the same sector
            a, b = rng.choice(R.shape[0], size=2, replace=False)
            if tuple(R[a]) == tuple(R[b]):
                t[:, :, b] = t[:, :, a]
        tensors.append(t)
    mp = _assemble(model, kind, tensors, labels, qntot, cplx, coeff)
    dn = np.linalg.norm(dense_chain(mp))
    if not np.isfinite(dn) or dn < 1e-6:
        return None
    if centre is None:
        centre = int(rng.integers(n))
    if to_right is None:
        to_right = bool(rng.integers(2))
    set_centre(mp, labels, centre, to_right)
    return mp


def _assemble(model, kind, tensors, left_labels_, qntot, cplx, coeff):
    cls = _CLS[kind]
    mp = cls()
    mp.model = model
    if cplx:
        mp.dtype = np.complex128
    for i, t in enumerate(tensors):
        d = model.basis[i].nbas
        if kind != "mps":
            t = t.reshape(t.shape[0], d, d, t.shape[-1])
        mp.append(np.array(t))
    mp.qntot = np.array(qntot, dtype=int)
    if kind != "mpo":
        mp.coeff = coeff
    mp.compress_config = lossless_config()
    n = len(tensors)
    set_centre(mp, left_labels_, n - 1, False)
    return mp


def set_centre(mp, left_labels_, centre, to_right):
    """Write labels for the given centre from left-block labels, independently of move_qnidx."""
    T = np.array(mp.qntot, dtype=int)
    mp.qn = [np.array(L, dtype=int).copy() if i <= centre else T[None, :] - np.array(L, dtype=int)
             for i, L in enumerate(left_labels_)]
    mp.qnidx = int(centre)
    mp.to_right = bool(to_right)


def random_mps(rng, model, **kw):
    return random_chain(rng, model, "mps", **kw)


def random_mpo(rng, model, **kw):
    kw.setdefault("max_bond", 3)
    return random_chain(rng, model, "mpo", **kw)


def random_mpdm(rng, model, **kw):
    kw.setdefault("max_bond", 3)
    return random_chain(rng, model, "mpdm", **kw)


def library_mps(rng, model, qntot, m_max=4, percent=1.0, tries=6):
    """``Mps.random`` seeded from ``rng``; retries with larger ``m_max`` on FloatingPointError /
    empty-sector failures (known defect D15).  Returns the Mps or None."""
    for t in range(tries):
        np.random.seed(int(rng.integers(2 ** 31 - 1)))
        try:
            m = Mps.random(model, np.array(qntot, dtype=int), m_max + 2 * t, percent=percent)
        except (FloatingPointError, ValueError, AssertionError, ZeroDivisionError):
            continue
        if not np.all(np.isfinite(dense_chain(m))):
            continue
        m.compress_config = lossless_config()
        return m
    return None


# =====================================================================================  dense side
def dense_chain(mp):
    """Contract the site tensors (own contraction, strict shapes; no coeff).  Vector for Mps,
    matrix (up, down) otherwise.  Raises ValueError for a malformed chain (boundary bond != 1 or
    neighbouring bond dimensions that do not match)."""
    arrs = [np.asarray(mp[i].array) for i in range(len(mp))]
    if arrs[0].shape[0] != 1 or arrs[-1].shape[-1] != 1:
        raise ValueError(f"malformed chain: boundary bonds {arrs[0].shape[0]}, {arrs[-1].shape[-1]}")
    for x, y in zip(arrs[:-1], arrs[1:]):
        if x.shape[-1] != y.shape[0]:
            raise ValueError("malformed chain: neighbouring bond dimensions differ")
    if arrs[0].ndim == 3:
        v = np.ones((1, 1), dtype=arrs[0].dtype)
        for a in arrs:
            v = np.tensordot(v, a, axes=([1], [0])).reshape(-1, a.shape[2])
        return v[:, 0]
    v = np.ones((1, 1, 1), dtype=arrs[0].dtype)   # (up, down, bond)
    for a in arrs:
        v = np.tensordot(v, a, axes=([2], [0]))                       # u d x y b
        v = v.transpose(0, 2, 1, 3, 4).reshape(v.shape[0] * a.shape[1], v.shape[1] * a.shape[2], a.shape[3])
    return v[:, :, 0]


def coeff_of(mp):
    return getattr(mp, "coeff", 1) if kind_of(mp) != "mpo" else 1


def dense_state(mp):
    """The represented object: dense_chain(mp) * coeff (coeff = 1 for Mpo)."""
    return dense_chain(mp) * coeff_of(mp)


def sector_support(dense, model, kind, rtol=1e-9):
    """Set of total charges (tuples) on which ``dense`` has weight above ``rtol * max|dense|``."""
    ch = dense_charges(model)
    a = np.abs(dense)
    m = a.max() if a.size else 0.0
    if m == 0:
        return set()
    big = a > rtol * m
    if kind == "mps":
        sel = ch[big]
    elif kind == "mpo":
        u, d = np.nonzero(big)
        sel = ch[u] - ch[d]
    else:
        u, d = np.nonzero(big)
        sel = ch[u]
    return {tuple(int(x) for x in r) for r in sel}


def _pdims(model, kind):
    return [b.nbas if kind == "mps" else b.nbas ** 2 for b in model.basis]


def exact_bond_bound(model, kind):
    """min(prod_{j<i} P_j, prod_{j>=i} P_j) for bonds i = 0..n, P = d (mps) or d^2 (mpo, mpdm)."""
    p = _pdims(model, kind)
    n = len(p)
    left = [1]
    for x in p:
        left.append(left[-1] * x)
    right = [1]
    for x in p[::-1]:
        right.append(right[-1] * x)
    right = right[::-1]
    return [min(left[i], right[i]) for i in range(n + 1)]


def _site_tensor(dense, model, kind):
    """dense object as a tensor with one axis per site (axis size d, or d*d up-major)"""
    ds = [b.nbas for b in model.basis]
    n = len(ds)
    if kind == "mps":
        return np.asarray(dense).reshape(ds)
    t = np.asarray(dense).reshape(ds + ds)
    perm = []
    for i in range(n):
        perm += [i, n + i]
    return t.transpose(perm).reshape([d * d for d in ds])


def bond_sectors(dense, model, kind, rtol=1e-9):
    """For every internal bond i = 1..n-1 the set of left-block charges (tuples) that carry weight
    above ``rtol * |dense|`` in the dense object.  List of n-1 sets."""
    t = _site_tensor(dense, model, kind)
    sq = site_qn(model, kind)
    p = list(t.shape)
    n = len(p)
    tot = max(float(np.linalg.norm(t.ravel())), 1e-300)
    q = sq[0].shape[1]
    ch = np.zeros((1, q), dtype=int)
    out = []
    for i in range(1, n):
        ch = (ch[:, None, :] + sq[i - 1][None, :, :]).reshape(-1, q)
        w = np.linalg.norm(t.reshape(int(np.prod(p[:i])), -1), axis=1)
        out.append({tuple(int(x) for x in c) for c, x in zip(ch, w) if x > rtol * tot})
    return out


def sector_ranks(dense, model, kind, hi=1e-7):
    """For every internal bond i = 1..n-1 a dict {left-block charge: numerical rank of the rows of the
    bond-i matricisation that carry this charge} (singular values >= hi * largest singular value of the
    whole matricisation).  A chain can only represent the object if, on every bond, it has at least
    that many bond states labelled with that charge."""
    t = _site_tensor(dense, model, kind)
    sq = site_qn(model, kind)
    p = list(t.shape)
    n = len(p)
    q = sq[0].shape[1]
    ch = np.zeros((1, q), dtype=int)
    out = []
    for i in range(1, n):
        ch = (ch[:, None, :] + sq[i - 1][None, :, :]).reshape(-1, q)
        m = t.reshape(int(np.prod(p[:i])), -1)
        top = np.linalg.svd(m, compute_uv=False)[0] if m.size else 0.0
        d = {}
        if top > 0:
            for c in {tuple(int(x) for x in r) for r in ch}:
                rows = np.all(ch == np.array(c), axis=1)
                sv = np.linalg.svd(m[rows], compute_uv=False)
                r = int(np.sum(sv >= hi * top))
                if r:
                    d[c] = r
        out.append(d)
    return out


def schmidt_ranks(dense, model, kind, lo=1e-13, hi=1e-7):
    """Numerical Schmidt rank across every bond 0..n of the dense object, and a flag telling that
    some singular value fell in the ambiguous window (lo, hi) relative to the largest."""
    t = _site_tensor(dense, model, kind)
    n = t.ndim
    p = list(t.shape)
    ranks, amb = [1], False
    for i in range(1, n):
        m = t.reshape(int(np.prod(p[:i])), -1)
        s = np.linalg.svd(m, compute_uv=False)
        if s[0] == 0:
            ranks.append(0)
            continue
        r = s / s[0]
        ranks.append(int(np.sum(r >= hi)))
        if np.any((r > lo) & (r < hi)):
            amb = True
    if n >= 1:
        ranks.append(1)
    return ranks, amb


# =====================================================================================  structure
def left_labels(mp):
    """Left-block labels of every bond implied by (qn, qnidx, qntot): qn[i] for i <= qnidx,
    qntot - qn[i] beyond."""
    T = np.array(mp.qntot, dtype=int).reshape(1, -1)
    out = []
    for i, l in enumerate(mp.qn):
        l = np.array(l, dtype=int).reshape(-1, T.shape[1])
        out.append(l if i <= mp.qnidx else T - l)
    return out


def check_labels(mp, tol=1e-12):
    """Independent consistency check of labels against tensors.  Returns a list of problems
    (empty = consistent): wrong label-array sizes, boundary labels, or a tensor element of modulus
    > tol * max|tensor| sitting outside the blocks allowed by the labels."""
    kind = kind_of(mp)
    n = len(mp)
    probs = []
    try:
        T = np.array(mp.qntot, dtype=int).reshape(-1)
        sq = site_qn(mp.model, kind)
        if len(mp.qn) != n + 1:
            return [f"len(qn)={len(mp.qn)} for {n} sites"]
        if not (0 <= mp.qnidx <= n - 1):
            return [f"qnidx={mp.qnidx} outside 0..{n - 1}"]
        L = left_labels(mp)
        for i in range(n + 1):
            D = mp[i].shape[0] if i < n else mp[n - 1].shape[-1]
            if L[i].shape != (D, len(T)):
                probs.append(f"bond {i}: label shape {L[i].shape} vs bond dim {D}")
        if probs:
            return probs
        if np.any(L[0] != 0):
            probs.append("left boundary label not 0")
        if np.any(L[n] != T[None, :]):
            probs.append("right boundary label not qntot")
        for i in range(n):
            a = np.asarray(mp[i].array)
            a = a.reshape(a.shape[0], -1, a.shape[-1])
            mask = np.all(L[i][:, None, None, :] + sq[i][None, :, None, :] == L[i + 1][None, None, :, :], axis=-1)
            m = np.abs(a).max()
            if m > 0 and np.any(np.abs(a[~mask]) > tol * m):
                probs.append(f"site {i}: weight outside allowed blocks")
    except Exception as e:  # malformed metadata is itself a finding for the caller
        probs.append(f"label check raised {type(e).__name__}: {e}")
    return probs


def iso_defect(mp, i, side):
    """Distance of site ``i`` from a (scaled) isometry, recomputed from the tensor:
    side 'L': G = A^+ A with A reshaped (D_l * P, D_r);  side 'R': G = A A^+ with A (D_l, P * D_r).
    Returns ``(||G - c I||_max, c, ||offdiag(G)||_max)`` with c = mean diagonal of G."""
    a = np.asarray(mp[i].array)
    if side == "L":
        m = a.reshape(-1, a.shape[-1])
        g = m.conj().T @ m
    else:
        m = a.reshape(a.shape[0], -1)
        g = m @ m.conj().T
    c = float(np.real(np.trace(g)) / g.shape[0])
    off = g - np.diag(np.diag(g))
    return float(np.abs(g - c * np.eye(g.shape[0])).max()), c, float(np.abs(off).max())


# =====================================================================================  replay io
def _arr_json(a):
    a = np.asarray(a)
    if np.iscomplexobj(a):
        return dict(re=a.real.tolist(), im=a.imag.tolist())
    return a.tolist()


def _arr_load(o):
    if isinstance(o, dict):
        return np.array(o["re"]) + 1j * np.array(o["im"])
    return np.array(o)


def _c_json(c):
    c = complex(c)
    return [c.real, c.imag]


def labels_json(mp):
    return dict(qn=[np.array(x).astype(int).tolist() for x in mp.qn], qnidx=int(mp.qnidx),
                qntot=np.array(mp.qntot).astype(int).tolist(), to_right=bool(mp.to_right))


def dump_chain(mp):
    """Self-contained JSON-able description (model spec, tensors, labels, coeff)."""
    d = dict(kind=kind_of(mp), model=spec_of_model(mp.model),
             tensors=[_arr_json(mp[i].array) for i in range(len(mp))], coeff=_c_json(coeff_of(mp)))
    d.update(labels_json(mp))
    return d


def load_chain(d, model=None):
    """Rebuild the object dumped by :func:`dump_chain` (same model object if given)."""
    model = model or build_model(d["model"])
    ts = [_arr_load(t) for t in d["tensors"]]
    cplx = any(np.iscomplexobj(t) for t in ts)
    mp = _CLS[d["kind"]]()
    mp.model = model
    if cplx:
        mp.dtype = np.complex128
    for t in ts:
        mp.append(t)
    mp.qn = [np.array(x, dtype=int) for x in d["qn"]]
    mp.qnidx, mp.qntot, mp.to_right = d["qnidx"], np.array(d["qntot"], dtype=int), d["to_right"]
    if d["kind"] != "mpo":
        c = complex(*d["coeff"])
        mp.coeff = c.real if c.imag == 0 else c
    mp.compress_config = lossless_config()
    return mp


# =====================================================================================  gauge ops
def prep(mp, direction):
    """Put the centre at the end from which a sweep in ``direction`` starts -- the same two lines
    the implementation uses in ensure_left/right_canonical.  'R': sweep to the right (centre 0,
    to_right True); 'L': sweep to the left (centre n-1, to_right False)."""
    if direction == "R":
        mp.move_qnidx(0)
        mp.to_right = True
    else:
        mp.move_qnidx(len(mp) - 1)
        mp.to_right = False
    return mp


def cano(mp, direction, stop=None):
    """prep + canonicalise (in place, executed by the implementation)."""
    prep(mp, direction)
    if stop is None:
        return mp.canonicalise()
    return mp.canonicalise(stop)


def lossless_compress(mp, direction, m=None):
    """prep + canonicalise + compress with a bond limit that cannot truncate (or the given ``m``:
    int or per-bond list).  In place."""
    cano(mp, direction)
    return mp.compress(temp_m_trunc=LOSSLESS_M if m is None else m)


def random_history(rng, n, length=None, allow_partial=True):
    """Random gauge history for an ``n``-site chain as a JSON-able list of ops:
    ['cano', dir] ['partial', dir, stop] ['compress', dir] ['ensure_left'] ['ensure_right']
    ['move', site] ['to_right', bool] ['cano2', dir] (two opposite sweeps).  Empty = fresh."""
    if length is None:
        length = int(rng.integers(0, 4))
    h = []
    for _ in range(length):
        r = int(rng.integers(8))
        d = "RL"[int(rng.integers(2))]
        if r == 0:
            h.append(["cano", d])
        elif r == 1 and allow_partial and n >= 3:
            stop = int(rng.integers(1, n - 1))
            h.append(["partial", d, stop])
        elif r == 2:
            h.append(["compress", d])
        elif r == 3:
            h.append(["ensure_left"])
        elif r == 4:
            h.append(["ensure_right"])
        elif r == 5:
            h.append(["move", int(rng.integers(n))])
        elif r == 6:
            h.append(["to_right", bool(rng.integers(2))])
        else:
            h.append(["cano2", d])
    return h


def apply_history(mp, hist):
    """Execute a gauge history in place with the implementation's own routines.  Operations whose
    sweep would be empty (one-site chains, partial stop at the start site: known defect D14) are
    skipped so that operand preparation never trips it.  Returns ``mp``."""
    n = len(mp)
    for op in hist:
        k = op[0]
        if k == "cano":
            if n >= 2:
                cano(mp, op[1])
        elif k == "cano2":
            if n >= 2:
                cano(mp, op[1])
                mp.canonicalise()
        elif k == "partial":
            d, stop = op[1], op[2]
            start = 0 if d == "R" else n - 1
            if n >= 2 and stop != start and 0 <= stop <= n - 1:
                cano(mp, d, stop)
        elif k == "compress":
            if n >= 2:
                lossless_compress(mp, op[1])
        elif k == "ensure_left":
            if n >= 2:
                mp.ensure_left_canonical()
        elif k == "ensure_right":
            if n >= 2:
                mp.ensure_right_canonical()
        elif k == "move":
            mp.move_qnidx(int(op[1]) % n)
        elif k == "to_right":
            mp.to_right = bool(op[1])
        else:
            raise ValueError(op)
    return mp
