"""C04 failing-input search -- canonicalisation and lossless compression preserve the object.

Inputs: Mps / Mpo / MpDm chains of 1..6 sites with 1 or 2 conserved charges, generated directly as
QN-consistent tensors (over-complete bonds, dead-end sectors, exactly dependent columns, bonds of
dimension 1, real/complex, coeff != 1) or reached by arithmetic of the implementation (sum of two
chains, operator times state), optionally put through a random gauge history first.

Oracle (all recomputed with NumPy from the site tensors, never with the library's checkers):
  object      dense_chain * coeff before == after (1e-9 relative), qntot unchanged and equal to the
              sector the dense object lives in
  isometry    sites the sweep has left behind satisfy A^+A = 1 (left) / AA^+ = 1 (right), 1e-9;
              Mpo: the code balances norms (u*|vt|, vt/|vt|), so A^+A = c*1 with c > 0 is required
              after canonicalise and orthogonal columns/rows (off-diagonal Gram = 0) after compress
  bonds       no bond larger than before; after two opposite sweeps every bond
              <= min(prod phys left, prod phys right) (d for Mps, d^2 for Mpo/MpDm);
              compress(m) leaves every bond <= m
  centre      after a full sweep to the right: qnidx = n-1, to_right False (and mirrored); after a
              partial sweep: qnidx = stop; untouched sites are bit-identical
  partial     every stop site incl. the start site (empty sweep) and one-site chains
  compress    after canonicalise, with bond limit = max Schmidt rank (int), per-bond list of Schmidt
              ranks, a huge limit, CompressConfig(fixed, max rank) and CompressConfig(threshold 1e-13)
  variational mps.variational_compress(mpo) / mpo.contract(mps, "variational") with bond limit >=
              every Schmidt rank of the exact product: relative error <= 1e-6 with the default
              configuration; both methods from an exact guess with percent = 0 (fixed point)

Signatures: ``<routine>:<input class>:<failure>``.  Defects found (each reproduced by hand):
  D14  canonicalise:empty-sweep:UnboundLocalError   one-site chain, or stop site == start site
       (pinned tree ee24c78; repaired by a fix: commit)
  new  compress-ret_s:one-site:ValueError           compress(ret_s=True) on a one-site chain: max() of
       an empty list of singular-value arrays
  new  compress:mpo:uniform-limit-above-local-rank:object-changed
       Mpo.compress keeps the singular values in the site it leaves (u*sigma) instead of carrying them
       along the sweep; with one limit M >= every Schmidt rank but above the rank of an earlier bond,
       zero-weight directions survive there and displace real ones at the next bond (errors of 10 %)
  new  variational:sector-starved:stalled           variational_compress (default configuration) stalls
       when the iterate holds fewer states of a symmetry sector on some bond than the product needs
"""
import time

import numpy as np

import lib_chain as lc
from renormalizer.mps import Mps, Mpo, MpDm
from renormalizer.utils import CompressConfig, CompressCriteria

RTOL = 1e-9
ISO_TOL = 1e-9
VAR_TOL = 1e-6
SIG_D14 = "canonicalise:empty-sweep:UnboundLocalError"


def nrm(x):
    return float(np.linalg.norm(np.asarray(x).ravel()))


class Ctx:
    def __init__(self, run, rng, quick):
        self.run, self.rng, self.quick = run, rng, quick
        self.evals = 0
        self.distinct = set()
        self.t0 = time.time()
        self.wall = 50.0 if quick else 540.0

    def out_of_time(self):
        if time.time() - self.t0 > self.wall:
            self.run.count("budget-stop")
            return True
        return False

    def tally(self, key, nontrivial):
        self.evals += 1
        if nontrivial:
            self.distinct.add(key)


def inclass(mp):
    """input class used in signatures: kind + qn components + size class"""
    n = len(mp)
    size = "one-site" if n == 1 else ("two-site" if n == 2 else "chain")
    return f"{lc.kind_of(mp)}:{size}"


def viol(ctx, sig, X, extra):
    rep = dict(input=lc.dump_chain(X))
    rep.update(extra)
    ctx.run.violation(sig, rep)


# ------------------------------------------------------------------------------------------------
def check_preserved(ctx, routine, X, Y, E, step, extra, bonds_before, m_limit=None, cls=None):
    """object / sector / bond claims common to every routine. Returns True when all hold."""
    cls = cls or inclass(X)
    scale = max(nrm(E), 1e-300)
    ok = True
    try:
        obs = lc.dense_state(Y)
    except ValueError as e:
        viol(ctx, f"{routine}:{cls}:malformed", X, dict(extra, step=step, observed=str(e)))
        return False
    err = nrm(obs - E)
    if not err <= RTOL * scale:
        viol(ctx, f"{routine}:{cls}:object-changed", X, dict(extra, step=step, err=err, scale=scale,
                                                            bond_dims_after=[int(b) for b in Y.bond_dims]))
        ok = False
    kind = lc.kind_of(Y)
    T = tuple(int(x) for x in np.atleast_1d(Y.qntot))
    if T != tuple(int(x) for x in np.atleast_1d(X.qntot)):
        viol(ctx, f"{routine}:{cls}:qntot-changed", X, dict(extra, step=step, observed=list(T)))
        ok = False
    elif ok and lc.sector_support(obs, Y.model, kind, 1e-8) - {T}:
        viol(ctx, f"{routine}:{cls}:sector-leak", X, dict(extra, step=step))
        ok = False
    ba = [int(b) for b in Y.bond_dims]
    if any(a > b for a, b in zip(ba, bonds_before)):
        viol(ctx, f"{routine}:{cls}:bond-grew", X, dict(extra, step=step, before=bonds_before, after=ba))
        ok = False
    if m_limit is not None:
        lim = m_limit if isinstance(m_limit, (list, tuple)) else [m_limit] * len(ba)
        if any(a > max(int(l), 1) for a, l in zip(ba[1:-1], lim[1:-1])):
            viol(ctx, f"{routine}:{cls}:bond-over-limit", X, dict(extra, step=step, limit=[int(x) for x in lim], after=ba))
            ok = False
    if kind != "mpo" and lc.coeff_of(Y) != lc.coeff_of(X):
        # dense_state already includes coeff; a changed attribute with unchanged product would be
        # legitimate, so this is only counted
        ctx.run.count("coeff-attribute-changed")
    return ok


def check_isometries(ctx, routine, X, Y, sites, side, step, extra, strict):
    """``sites`` must be isometries on ``side`` ('L': A^+A, 'R': AA^+).  strict: = identity;
    otherwise (Mpo after canonicalise) proportional to identity; 'orth' = only off-diagonals."""
    cls = inclass(X)
    for i in sites:
        dev, c, off = lc.iso_defect(Y, i, side)
        if strict == "strict":
            bad = max(dev, abs(c - 1.0)) > ISO_TOL
        elif strict == "scaled":
            bad = not (c > 0 and dev <= ISO_TOL * c)
        else:
            a = np.asarray(Y[i].array)
            bad = off > ISO_TOL * max(float(np.abs(a).max()) ** 2, 1e-300)
        if bad:
            viol(ctx, f"{routine}:{cls}:not-isometric", X,
                 dict(extra, step=step, site=i, side=side, mode=strict, deviation=dev, gram_scale=c, offdiag=off))
            return False
    return True


def iso_mode(kind, after):
    if kind != "mpo":
        return "strict"
    return "scaled" if after == "cano" else "orth"


def expect_centre(ctx, routine, X, Y, qnidx, to_right, step, extra):
    if Y.qnidx != qnidx or (to_right is not None and bool(Y.to_right) != to_right):
        viol(ctx, f"{routine}:{inclass(X)}:centre-bookkeeping", X,
             dict(extra, step=step, expected=[qnidx, to_right], observed=[int(Y.qnidx), bool(Y.to_right)]))
        return False
    return True


def guarded(ctx, routine, X, fn, extra, empty_sweep=False):
    try:
        return fn(), True
    except Exception as e:  # noqa: BLE001 -- the property promises a result for these inputs
        if empty_sweep and isinstance(e, UnboundLocalError):
            sig = SIG_D14
        elif empty_sweep:
            sig = f"canonicalise:empty-sweep:{type(e).__name__}"
        else:
            sig = f"{routine}:{inclass(X)}:{type(e).__name__}"
        viol(ctx, sig, X, dict(extra, observed=f"{type(e).__name__}: {e}"))
        return None, False


# ------------------------------------------------------------------------------------------------
def test_full_sweeps(ctx, X, E):
    """canonicalise in a direction, then twice more (directions alternate by themselves)."""
    rng, run = ctx.rng, ctx.run
    n, kind = len(X), lc.kind_of(X)
    d = "RL"[int(rng.integers(2))]
    extra = dict(test="full-sweeps", first_direction=d)
    Y = X.copy()
    plain = (Y.to_right and Y.qnidx == 0) or ((not Y.to_right) and Y.qnidx == n - 1)
    if plain and rng.random() < 0.5:
        d = "R" if Y.to_right else "L"
        extra["first_direction"] = d
        extra["prep"] = False
    elif (not plain) and rng.random() < 0.4:
        # centre anywhere (sums / products of mixed-canonical operands keep their operands' flags): a plain canonicalise()
        # must still decompose EVERY site of the sweep its flags announce
        d = "R" if Y.to_right else "L"
        extra["first_direction"] = d
        extra["prep"] = False
        run.count("full-sweeps:interior-centre-no-prep")
    else:
        lc.prep(Y, d)
    bonds = [int(b) for b in Y.bond_dims]
    key = (kind, n, X.model.qn_size, tuple(bonds), X.is_complex, "full", d)
    ctx.tally(key, n >= 2 and max(bonds) >= 2)
    _, ok = guarded(ctx, "canonicalise", X, lambda: Y.canonicalise(), extra, empty_sweep=(n == 1))
    if not ok:
        return
    cur = d
    for step in range(3):
        if not check_preserved(ctx, "canonicalise", X, Y, E, step, extra, bonds):
            return
        if n >= 2:
            if cur == "R":
                if not expect_centre(ctx, "canonicalise", X, Y, n - 1, False, step, extra):
                    return
                if not check_isometries(ctx, "canonicalise", X, Y, range(0, n - 1), "L", step, extra, iso_mode(kind, "cano")):
                    return
            else:
                if not expect_centre(ctx, "canonicalise", X, Y, 0, True, step, extra):
                    return
                if not check_isometries(ctx, "canonicalise", X, Y, range(1, n), "R", step, extra, iso_mode(kind, "cano")):
                    return
        if step >= 1 and n >= 2:
            bound = lc.exact_bond_bound(X.model, kind)
            ba = [int(b) for b in Y.bond_dims]
            if any(a > b for a, b in zip(ba, bound)):
                viol(ctx, f"canonicalise:{inclass(X)}:bond-over-exact-bound", X, dict(extra, step=step, after=ba, bound=bound))
                return
        if step == 2:
            break
        bonds = [int(b) for b in Y.bond_dims]
        if n == 1:
            break
        _, ok = guarded(ctx, "canonicalise", X, lambda: Y.canonicalise(), dict(extra, step=step + 1))
        if not ok:
            return
        if step == 1 and [int(b) for b in Y.bond_dims] != bonds:
            run.count("third-sweep-shrunk")
        cur = "L" if cur == "R" else "R"


def test_partial(ctx, X, E):
    """canonicalise(stop) for every stop site incl. the start site; optionally from a canonical
    form so that the result is mixed-canonical; then a follow-up full sweep."""
    rng, run = ctx.rng, ctx.run
    n, kind = len(X), lc.kind_of(X)
    d = "RL"[int(rng.integers(2))]
    start = 0 if d == "R" else n - 1
    from_canonical = n >= 2 and rng.random() < 0.5
    stops = list(range(n))
    if len(stops) > 3:
        keep = {start}
        keep.update(int(s) for s in rng.choice(n, size=2, replace=False))
        stops = sorted(keep)
    for stop in stops:
        Y = X.copy()
        extra = dict(test="partial", direction=d, stop=stop, from_canonical=bool(from_canonical))
        if from_canonical:
            # sweep the other way first: now all sites except `start` are isometries pointing at it
            lc.cano(Y, "L" if d == "R" else "R")
        lc.prep(Y, d)
        before = [np.array(Y[i].array) for i in range(n)]
        bonds = [int(b) for b in Y.bond_dims]
        empty = stop == start
        key = (kind, n, X.model.qn_size, tuple(bonds), X.is_complex, "partial", d, stop, from_canonical)
        ctx.tally(key, n >= 2 and max(bonds) >= 2)
        run.count("partial:" + ("empty-sweep" if empty else ("to-far-end" if stop in (0, n - 1) else "inner-stop")))
        _, ok = guarded(ctx, "canonicalise-partial", X, lambda: Y.canonicalise(stop), extra, empty_sweep=empty)
        if not ok:
            continue
        if not check_preserved(ctx, "canonicalise-partial", X, Y, E, 0, extra, bonds):
            continue
        if empty:
            continue
        far_end = stop == (n - 1 if d == "R" else 0)
        # the direction flips only when the sweep reached the far end
        want_tr = (not (d == "R")) if far_end else (d == "R")
        if not expect_centre(ctx, "canonicalise-partial", X, Y, stop, want_tr, 0, extra):
            continue
        mode = iso_mode(kind, "cano")
        if d == "R":
            swept, side = range(0, stop), "L"
            untouched = range(stop + 1, n)
        else:
            swept, side = range(stop + 1, n), "R"
            untouched = range(0, stop)
        if not check_isometries(ctx, "canonicalise-partial", X, Y, swept, side, 0, extra, mode):
            continue
        for i in untouched:
            if not np.array_equal(np.asarray(Y[i].array), before[i]):
                viol(ctx, f"canonicalise-partial:{inclass(X)}:untouched-site-changed", X, dict(extra, site=i))
                break
        if from_canonical:
            other = "R" if side == "L" else "L"
            if not check_isometries(ctx, "canonicalise-partial", X, Y, untouched, other, 0, dict(extra, claim="mixed-canonical"), mode):
                continue
        # labels must be good enough for a later full sweep from the new centre
        Z = Y.copy()
        d2 = "RL"[int(rng.integers(2))]
        _, ok = guarded(ctx, "canonicalise-after-partial", X, lambda: lc.cano(Z, d2), dict(extra, followup=d2))
        if ok:
            check_preserved(ctx, "canonicalise-after-partial", X, Z, E, 1, dict(extra, followup=d2), [int(b) for b in Y.bond_dims])


def test_compress(ctx, X, E):
    """canonicalise then compress with a sufficient bond limit, five ways of saying 'sufficient'."""
    rng, run = ctx.rng, ctx.run
    n, kind = len(X), lc.kind_of(X)
    ranks, amb = lc.schmidt_ranks(E, X.model, kind)
    variants = ["huge", "config-threshold"]
    if not amb and n >= 2:
        variants += ["max-rank", "rank-list", "config-fixed"]
    else:
        run.count("compress:rank-ambiguous-or-one-site")
    var = variants[int(rng.integers(len(variants)))]
    if kind == "mpo" and len(variants) > 2 and len(set(ranks[1:-1])) > 1 and rng.random() < 0.5:
        var = ["max-rank", "config-fixed"][int(rng.integers(2))]
    d = "RL"[int(rng.integers(2))]    # direction of the canonicalising sweep; compress goes back
    extra = dict(test="compress", variant=var, cano_direction=d, schmidt_ranks=ranks)
    Y = X.copy()
    key = (kind, n, X.model.qn_size, tuple(int(b) for b in X.bond_dims), X.is_complex, "compress", var, d)
    ctx.tally(key, n >= 2 and max(X.bond_dims) >= 2)
    run.count("compress:" + var)
    if n >= 2:
        _, ok = guarded(ctx, "canonicalise", X, lambda: lc.cano(Y, d), extra)
        if not ok or not check_preserved(ctx, "canonicalise", X, Y, E, 0, extra, [int(b) for b in X.bond_dims]):
            return
    else:
        lc.prep(Y, d)
    bonds = [int(b) for b in Y.bond_dims]
    mlim = None
    if var == "huge":
        f = lambda: Y.compress(temp_m_trunc=lc.LOSSLESS_M)
    elif var == "max-rank":
        mlim = max(max(ranks), 1)
        f = lambda: Y.compress(temp_m_trunc=mlim)
    elif var == "rank-list":
        mlim = [max(r, 1) for r in ranks]
        kindl = int(rng.integers(3))
        arg = [list(mlim), tuple(mlim), np.array(mlim)][kindl]
        f = lambda: Y.compress(temp_m_trunc=arg)
    elif var == "config-fixed":
        mlim = max(max(ranks), 1)
        Y.compress_config = CompressConfig(CompressCriteria.fixed, max_bonddim=mlim)
        f = lambda: Y.compress()
    else:
        Y.compress_config = CompressConfig(CompressCriteria.threshold, threshold=1e-13)
        f = lambda: Y.compress()
    ret_s = rng.random() < 0.25
    if ret_s:
        g = f
        if var in ("config-fixed", "config-threshold"):
            f = lambda: Y.compress(ret_s=True)
        elif var == "huge":
            f = lambda: Y.compress(temp_m_trunc=lc.LOSSLESS_M, ret_s=True)
        else:
            ret_s = False
            f = g
    if ret_s:
        extra["ret_s"] = True
        try:
            res, ok = f(), True
        except Exception as e:  # noqa: BLE001
            size = "one-site" if n == 1 else "chain"
            viol(ctx, f"compress-ret_s:{size}:{type(e).__name__}", X, dict(extra, observed=f"{type(e).__name__}: {e}"))
            return
    else:
        res, ok = guarded(ctx, "compress", X, f, extra)
    if not ok:
        return
    routine, cls = "compress", None
    if kind == "mpo" and var in ("max-rank", "config-fixed") and len(set(ranks[1:-1])) > 1:
        # operators: singular values stay in the site instead of travelling with the sweep, so a
        # uniform limit above the rank of an earlier bond lets zero-weight directions displace real
        # ones at the next bond (reproduced by hand; reported under its own signature)
        cls = "mpo:uniform-limit-above-local-rank"
        run.count("compress:mpo-uniform-limit-above-local-rank")
    if not check_preserved(ctx, routine, X, Y, E, 1, extra, bonds, m_limit=mlim, cls=cls):
        return
    if n >= 2:
        # compress ran opposite to the canonicalising sweep
        if d == "R":      # compress swept to the left
            if not expect_centre(ctx, "compress", X, Y, 0, True, 1, extra):
                return
            check_isometries(ctx, "compress", X, Y, range(1, n), "R", 1, extra, iso_mode(kind, "compress"))
        else:
            if not expect_centre(ctx, "compress", X, Y, n - 1, False, 1, extra):
                return
            check_isometries(ctx, "compress", X, Y, range(0, n - 1), "L", 1, extra, iso_mode(kind, "compress"))
    if ret_s and n >= 2 and kind == "mps":
        # singular values returned per bond (in sweep order) must be the Schmidt values of the object
        try:
            s_arr = np.asarray(res[1])
            coef = abs(lc.coeff_of(X))
            order = list(range(n - 1, 0, -1)) if d == "R" else list(range(1, n))
            ds = [b.nbas for b in X.model.basis]
            T = np.asarray(E).reshape(ds) / (coef if coef else 1.0)
            for row, bond in zip(s_arr, order):
                ref = np.linalg.svd(T.reshape(int(np.prod(ds[:bond])), -1), compute_uv=False)
                k = min(len(ref), len(row))
                a = np.sort(np.asarray(row))[::-1]
                if np.abs(a[:k] - ref[:k]).max() > 1e-9 * max(ref[0], 1e-300) or np.abs(a[k:]).max(initial=0) > 1e-9 * max(ref[0], 1e-300):
                    viol(ctx, f"compress:{inclass(X)}:singular-values", X, dict(extra, bond=bond, observed=a.tolist(), expected=ref.tolist()))
                    break
        except Exception as e:  # noqa: BLE001
            viol(ctx, f"compress:{inclass(X)}:ret_s-{type(e).__name__}", X, dict(extra, observed=str(e)))
    # idempotence: a second lossless compression changes nothing
    bonds2 = [int(b) for b in Y.bond_dims]
    _, ok = guarded(ctx, "compress-again", X, lambda: Y.compress(temp_m_trunc=lc.LOSSLESS_M), extra)
    if ok:
        check_preserved(ctx, "compress-again", X, Y, E, 2, extra, bonds2)


def test_ensure(ctx, X, E):
    rng = ctx.rng
    n, kind = len(X), lc.kind_of(X)
    which = "left" if rng.random() < 0.5 else "right"
    Y = X.copy()
    extra = dict(test="ensure", which=which, state=lc.labels_json(X))
    bonds = [int(b) for b in Y.bond_dims]
    ctx.tally((kind, n, X.model.qn_size, tuple(bonds), "ensure", which, X.qnidx, bool(X.to_right)), n >= 2 and max(bonds) >= 2)
    # on a one-site chain ensure_* either returns at once or runs an empty sweep
    f = (lambda: Y.ensure_left_canonical()) if which == "left" else (lambda: Y.ensure_right_canonical())
    _, ok = guarded(ctx, "ensure_" + which, X, f, extra, empty_sweep=(n == 1))
    if not ok:
        return
    if not check_preserved(ctx, "ensure_" + which, X, Y, E, 0, extra, bonds):
        return
    if n >= 2:
        if which == "left":
            expect_centre(ctx, "ensure_left", X, Y, n - 1, False, 0, extra)
            check_isometries(ctx, "ensure_left", X, Y, range(0, n - 1), "L", 0, extra, iso_mode(kind, "cano"))
        else:
            expect_centre(ctx, "ensure_right", X, Y, 0, True, 0, extra)
            check_isometries(ctx, "ensure_right", X, Y, range(1, n), "R", 0, extra, iso_mode(kind, "cano"))


def test_variational(ctx, model):
    """variational compression of operator x state with a sufficient bond limit.

    C04 quantifies over inputs and histories, not over configurations, so the verdict is taken with
    the default configuration (2-site method, default vguess_m = (5, 5)); the states are given
    bonds up to 8 so that the default guess really is a truncation (mode "default"; mode
    "mpdm-default" does the same for operator x density operator on the small model).  Two non-default settings are
    also run: either method from an exact guess with percent = 0 in every sweep (mode "fixed-point":
    the exact product must be reproduced -- judged), and the 2-site method from a poor guess of bond 1..3 (only measured and
    counted: stalling from a poor start is a limitation of the algorithm, not judged here)."""
    rng, run = ctx.rng, ctx.run
    mode = ["default", "default", "fixed-point", "poor-guess", "mpdm-default"][int(rng.integers(5))]
    skind = "mpdm" if mode == "mpdm-default" else "mps"
    if mode == "default":
        # own model: long enough and with sectors wide enough for Schmidt ranks above 5
        n = int(rng.integers(4, 6 if ctx.quick else 7))
        model = lc.build_model(lc.random_model_spec(rng, n, 1, max_d=3, min_d=3, kinds=["me", "sho", "mev"],
                                                    neutral=rng.random() < 0.5))
    n = model.nsite
    if n < 2:
        return
    cplx = bool(rng.random() < 0.3)
    O = None
    if rng.random() < 0.6:
        try:
            O, _, _ = lc.library_mpo(rng, model, nterms=int(rng.integers(1, 4)), cplx=cplx)
        except Exception:  # noqa: BLE001 -- construction is C01's business
            O = None
    if O is None:
        O = lc.random_chain(rng, model, "mpo", cplx=cplx, max_bond=2, centre=n - 1, to_right=False)
    if O is None:
        return
    psi = None
    for _ in range(6):
        psi = lc.random_chain(rng, model, skind, cplx=bool(rng.random() < 0.3), max_bond=8 if mode == "default" else 3,
                              p_one=0.0 if mode == "default" else 0.15, p_dead=0.0 if mode == "default" else 0.15,
                              bond_dims=([1] + [8] * (n - 1) + [1]) if (mode == "default" and rng.random() < 0.7) else None,
                              coeff=float(rng.choice([1.0, 2.0, 0.5])), centre=n - 1, to_right=False)
        if psi is not None and nrm(lc.dense_state(O) @ lc.dense_state(psi)) > 1e-3 * nrm(lc.dense_state(O)) * nrm(lc.dense_state(psi)):
            break
        psi = None
    if psi is None:
        run.count("rejected:variational-no-nonzero-product")
        return
    EO, Epsi = lc.dense_state(O), lc.dense_state(psi)
    P = EO @ Epsi
    ranks, amb = lc.schmidt_ranks(P, model, skind)
    if amb:
        run.count("rejected:variational-rank-ambiguous")
        return
    # the operand centres must sit where canonicalise() expects them
    lc.prep(O, "L")
    lc.prep(psi, "L")
    M = max(ranks) + int(rng.integers(0, 3))
    if mode in ("default", "mpdm-default"):
        cfg = CompressConfig(CompressCriteria.fixed, max_bonddim=M)
    elif mode == "fixed-point":
        # exact guess and pure singular-value selection (percent = 0 in every sweep): the exact product
        # must be reproduced by either method
        cfg = CompressConfig(CompressCriteria.fixed, max_bonddim=M, vmethod="1site" if rng.random() < 0.5 else "2site",
                             vguess_m=(64, 64), vprocedure=[[M, 0.0]] * 4)
    else:
        g = int(rng.integers(1, 4))
        cfg = CompressConfig(CompressCriteria.fixed, max_bonddim=M, vguess_m=(g, g))
    method, guess = cfg.vmethod, tuple(cfg.vguess_m)
    psi.compress_config = cfg
    entry = "variational_compress" if rng.random() < 0.5 else "contract"
    extra = dict(test="variational", mode=mode, method=method, vguess_m=list(guess), max_bonddim=M, schmidt_ranks=ranks,
                 operator=lc.dump_chain(O), entry=entry)
    # is the guess (compressed mpo @ compressed mps, as variational_compress builds it) lossy / zero?
    starved = False
    try:
        go = O.copy().canonicalise().compress(temp_m_trunc=guess[0])
        gp = psi.copy().canonicalise().compress(temp_m_trunc=guess[1])
        G = lc.dense_state(go) @ lc.dense_state(gp)
        gerr = nrm(G - P) / nrm(P)
        if gerr > 1e-8:
            # does the truncated guess lack a symmetry sector that the exact product occupies on some bond?
            starved = any(a - b for a, b in zip(lc.bond_sectors(P, model, skind, 1e-7), lc.bond_sectors(G, model, skind, 1e-12)))
    except Exception:  # noqa: BLE001
        gerr = 1.0
    if gerr > 1 - 1e-6:
        run.count("rejected:variational-guess-vanishes")
        return
    run.count(f"variational:{mode}:" + ("guess-lossy" if gerr > 1e-8 else "guess-exact") + ("-sector-lost" if starved else ""))
    ctx.tally(("var", n, model.qn_size, tuple(int(b) for b in psi.bond_dims), tuple(int(b) for b in O.bond_dims), mode, guess, M),
              max(psi.bond_dims) >= 2 and max(O.bond_dims) >= 2 and gerr > 1e-8)
    np.random.seed(int(rng.integers(2 ** 31 - 1)))   # svd_qn.add_orthonormal_basis uses np.random
    x = psi.copy()
    f = (lambda: x.variational_compress(O)) if entry == "variational_compress" else (lambda: O.contract(x, algo="variational"))
    if mode == "poor-guess":
        try:
            r = f()
            err = nrm(lc.dense_state(r) - P) / nrm(P)
            run.count("variational:poor-guess:" + ("converged" if err <= VAR_TOL else "stalled(observation)"))
        except Exception as e:  # noqa: BLE001
            run.count(f"variational:poor-guess:{type(e).__name__}(observation)")
        return
    r, ok = guarded(ctx, "variational", psi, f, extra)
    if not ok:
        return
    try:
        obs = lc.dense_state(r)
    except ValueError as e:
        viol(ctx, f"variational:{mode}:malformed", psi, dict(extra, observed=str(e)))
        return
    err = nrm(obs - P) / nrm(P)
    run.count("variational:err<=1e-10" if err <= 1e-10 else ("variational:err<=1e-8" if err <= 1e-8 else "variational:err>1e-8"))
    if not err <= VAR_TOL:
        # Reproduced by hand: the sweeps can stall in a local minimum in which, on some bond, the iterate
        # holds fewer states of a symmetry sector than the exact product needs there -- the sector was
        # dropped by the truncated guess, or its slots were given to other sectors by the `percent`
        # basis selection of the first sweeps when the limit is tight.  A 2-site update can only create
        # bond labels that join labels already present on both neighbouring bonds, so the iterate does
        # not recover, whatever the bond limit.  These stalls get their own signature; any failure with
        # an exact guess and a limit above the exact rank, and every other failure, is reported as
        # not-converged-to-product.
        starved_result = False
        if mode != "fixed-point" and (gerr > 1e-8 or M == max(ranks)):
            try:
                need, have = lc.sector_ranks(P, model, skind), lc.sector_ranks(obs, model, skind, hi=1e-12)
                starved_result = any(h.get(c, 0) < k for nd, h in zip(need, have) for c, k in nd.items())
            except Exception:  # noqa: BLE001
                starved_result = False
        sig = "variational:sector-starved:stalled" if starved_result else f"variational:{mode}:not-converged-to-product"
        viol(ctx, sig, psi, dict(extra, rel_err=err, guess_rel_err=gerr, guess_lacks_sector=bool(starved),
                                 bond_dims=[int(b) for b in r.bond_dims]))
        return
    if max(r.bond_dims) > M:
        viol(ctx, f"variational:{mode}:bond-over-limit", psi, dict(extra, bond_dims=[int(b) for b in r.bond_dims]))
    if nrm(lc.dense_state(x) - Epsi) > RTOL * nrm(Epsi):
        viol(ctx, f"variational:{mode}:input-changed", psi, extra)


# ------------------------------------------------------------------------------------------------
def draw_input(ctx, model):
    """(object, dense) -- direct, or reached by arithmetic of the implementation"""
    rng, run = ctx.rng, ctx.run
    n = model.nsite
    r = rng.random()
    kind = ["mps", "mps", "mpo", "mpdm"][int(rng.integers(4))]
    cplx = bool(rng.random() < 0.4)
    coeff = [1.0, 2.0, -0.5, complex(0.6, 0.8), complex(1.5, -2.0)][int(rng.integers(5))] if kind != "mpo" else 1.0
    mb = 4 if kind == "mps" else 3
    X = lc.random_chain(rng, model, kind, cplx=cplx, coeff=coeff, max_bond=mb,
                        p_dead=0.25 if rng.random() < 0.5 else 0.0, p_dup=0.4 if rng.random() < 0.5 else 0.0)
    if X is None:
        return None
    how = "direct"
    if r < 0.25 and n >= 2:
        # sum of two chains with the same centre (over-complete bonds by construction)
        Y = lc.random_chain(rng, model, kind, qntot=tuple(int(x) for x in X.qntot), cplx=bool(rng.random() < 0.3),
                            coeff=coeff, max_bond=mb, centre=X.qnidx, to_right=X.to_right)
        if Y is not None:
            try:
                S = X.add(Y) if rng.random() < 0.7 else X.add(X.copy())
                E = lc.dense_state(S)
                if nrm(E) > 1e-8 and not lc.check_labels(S, 1e-10):
                    X, how = S, "sum"
            except Exception:  # noqa: BLE001 -- arithmetic is C03's business
                run.count("rejected:sum-failed")
    elif r < 0.45 and kind == "mps":
        try:
            O, _, _ = lc.library_mpo(rng, model, nterms=int(rng.integers(1, 4)), cplx=cplx)
            if O is not None:
                Pm = O.apply(X)
                E = lc.dense_state(Pm)
                if nrm(E) > 1e-8 * max(nrm(lc.dense_state(O)) * nrm(lc.dense_state(X)), 1e-300) and not lc.check_labels(Pm, 1e-10) \
                        and max(Pm.bond_dims) <= 16:
                    X, how = Pm, "product"
        except Exception:  # noqa: BLE001
            run.count("rejected:product-failed")
    elif r < 0.55 and kind == "mps":
        T = tuple(int(x) for x in X.qntot)
        L = lc.library_mps(rng, model, T, m_max=int(rng.integers(1, 6)))
        if L is not None:
            L.coeff = coeff
            X, how = L, "Mps.random"
        else:
            run.count("rejected:Mps.random-failed(D15)")
    E = lc.dense_state(X)
    if nrm(E) < 1e-8:
        return None
    if rng.random() < 0.5:
        h = lc.random_history(rng, n, length=int(rng.integers(1, 3)))
        snap = lc.dump_chain(X)
        try:
            lc.apply_history(X, h)
            bad = nrm(lc.dense_state(X) - E) > RTOL * nrm(E)
            what = "object changed"
        except Exception as e:  # noqa: BLE001
            bad, what = True, f"{type(e).__name__}: {e}"
        if bad:
            kinds = "+".join(sorted({op[0] for op in h}))
            run.violation(f"history:{kind}:{kinds}:object-changed", dict(input=snap, history=h, observed=what))
            return None
        how += "+history"
    if rng.random() < 0.1:
        # tiny overall scale (1e-18 .. 1e-13) carried by the tensors themselves: nothing in a gauge move may depend on the
        # absolute size of the object
        sc = float(10 ** rng.uniform(-18, -13))
        try:
            k = int(X.qnidx)
            X[k] = X[k].array * sc if hasattr(X[k], "array") else np.asarray(X[k]) * sc
            E = lc.dense_state(X)
            how += "+tiny-scale"
        except Exception as e:  # noqa
            run.count(f"rejected:tiny-scale-prep:{type(e).__name__}")
            return None
    run.count(f"input:{lc.kind_of(X)}:{how}")
    run.count("input:" + ("complex" if X.is_complex else "real"))
    if min(X.bond_dims[1:-1] or [0]) == 1:
        run.count("input:has-bond-1")
    if lc.check_labels(X, 1e-10):
        run.count("rejected:input-labels-inconsistent")
        return None
    return X, E


def safely(ctx, name, spec, fn, *args):
    """An exception escaping a test means a routine of the implementation failed during operand
    preparation (copy, move_qnidx, canonicalise of a consistent chain ...); report, never abort."""
    try:
        return fn(*args)
    except Exception as e:  # noqa: BLE001
        import traceback
        tb = traceback.format_exc().strip().splitlines()
        ctx.run.violation(f"{name}:operand-preparation:unexpected-{type(e).__name__}",
                          dict(test=name, model=spec, observed=f"{type(e).__name__}: {e}", traceback=tb[-8:]))
        return None


def search(run, rng, quick):
    ctx = Ctx(run, rng, quick)
    rounds = 300 if quick else 3600
    nmax = 5 if quick else 6
    for rd in range(rounds):
        if ctx.out_of_time():
            break
        n = int(rng.integers(1, nmax + 1))
        if rng.random() < 0.1:
            n = 1
        q = 2 if rng.random() < 0.3 else 1
        spec = lc.random_model_spec(rng, n, q, max_d=3 if n >= 5 else 4, neutral=rng.random() < 0.08)
        model = lc.build_model(spec)
        run.count(f"n={n}")
        run.count(f"qn_size={q}")
        if rd < 3:
            run.sample(dict(round=rd, model=spec))
        for _ in range(3):
            got = safely(ctx, "draw-input", spec, draw_input, ctx, model)
            if got is None:
                run.count("rejected:no-input")
                continue
            X, E = got
            safely(ctx, "full-sweeps", spec, test_full_sweeps, ctx, X, E)
            safely(ctx, "partial", spec, test_partial, ctx, X, E)
            safely(ctx, "compress", spec, test_compress, ctx, X, E)
            safely(ctx, "ensure", spec, test_ensure, ctx, X, E)
        safely(ctx, "variational", spec, test_variational, ctx, model)
    run.cov["evaluations"] = run.cov.get("evaluations", 0) + ctx.evals
    run.cov["distinct_nontrivial"] = len(ctx.distinct)
    run.cov["rule"] = ("one evaluation = one routine call sequence (full sweeps x3, partial canonicalise at one stop site, "
                       "canonicalise+compress variant, ensure_*, variational compression) judged by the dense oracle and the "
                       "independent isometry/bond/centre checks; distinct = different (kind, length, qn components, bond "
                       "dimensions, dtype, routine, direction, stop site / variant); non-trivial = at least 2 sites and some bond >= 2")
