"""C01 failing-input search: automatic MPO construction is exact; adjacent-site swaps keep the operator.

Real code under test:  Mpo(model, terms, offset, algo).todense()  for algo in {qr, Hopcroft-Karp,
Hungarian};  Mpo.try_swap_site(new_model, swap_jw=False, algo) followed by todense().

Oracle (lib_mpo.dense_reference): sum_k c_k kron_i M_ki - offset*1, assembled with np.kron in the
CURRENT site order from the term specs.  The factors of a term are grouped per site here (order
within a site kept), without Op.product / split_elementary / dof_to_siteidx / _terms_to_table; the
local matrix of a site-level product is basis.op_mat of that product (the property's "local
matrix"; multi-DoF sites: the product carries the list of DoF names, e.g. a^dagger a on
[e_i, e_j] -> |i><j|, as in BasisMultiElectron(.Vac).op_mat).  Site 0 is the most significant
kron factor, which is Mpo.todense()'s convention (checked by `probe_kron_order` on every run).

Tolerances (max-abs entry error, scale = sum_k |c_k| prod_i max(1,max|M_ki|) + |offset|):
  graph algorithms: no factorisation is involved, every entry is a sum of <= nterms products of
      <= nsite+1 floats:  64 * eps * (nterms + nsite + 2) * scale;
  qr (construction or any swap so far): the routine discards R rows / Q and R entries below 1e-10
      relative to |r00| on purpose, at every bond:  1e-10 * 4 * nsite * (nterms + 1) * scale.
Calibrated on seeds 0..19 of both tiers (largest observed ratio error/tolerance is reported in the
counters as `max_err_over_tol_permille`).

Signatures
  construct:<algo>:dense-mismatch / :exception:<Type> / :shape     -- any failure of construction
  mpo-dtype:real-factor-complex-matrix:UFuncTypeError       -- D12 (dtype taken from factors)
  swap:<qr|graph>:dense-mismatch, swap:<..>:exception:<Type>, swap:failed-swap-corrupts-operator
  Defects of the pinned tree found by this search (each reproduced by hand, see the final report):
  swap:single-term-operator:AttributeError
      the one-row fast path of construct_symbolic_mpo stores out_ops_list in another shape
      ([OpTuple] instead of [[OpTuple]]); try_swap_site on such an operator raises.
  swap:qr:AssertionError@check_swap_consistency, swap:qr:AssertionError@swap_site,
  swap:graph:AssertionError@swap_site:qr-in-history
      swap_site relabels the outgoing bond operators through dummy symbols and assumes that the
      last decomposition step pairs every new bond operator with exactly one dummy; false for qr
      (R is not a permutation: the library's own consistency check then raises; with the check
      disabled the result is wrong) and for a vertex cover that picks a row covering several
      dummies (linearly dependent bond operators left behind by an earlier qr step).
  swap:graph:AssertionError@check_swap_consistency:qr-in-history:spurious-result-correct-without-check
      the self-check drops entries below 1e-10 * (max of that bond operator) while the table was
      deduplicated with 1e-15 * (max of the table): rounding-noise entries of a qr-built operator
      with factors spanning ~6 orders of magnitude make the two lists differ in length.  The same
      swap repeated with the self-check switched off gives the right operator (that is how this
      class is told apart from `...:result-wrong-without-check`, which is NOT a known class).
  swap:qr:AssertionError@check_swap_consistency:spurious-result-correct-without-check
      the same for a swap carried out WITH the qr algorithm on an operator whose factors span >= 4 orders of magnitude: the
      qr step leaves entries of relative size ~1e-8 which the self-check (rtol 1e-8, atol 1e-11, per-operator 1e-10 drop
      threshold) takes for a logic error; the swap is refused (operator intact), with the check switched off the result
      is right to rounding.  Recorded as an open finding.  `...:result-wrong-without-check` is NOT a known class (it was
      the signature of D36 before its repair).
  The suffix :graph-only-history (no qr anywhere) has never been seen on the pinned tree.
Total cancellation (every term cancels, no offset) makes Mpo raise ValueError like its own
"Terms all have factor 0": counted as rejected, not reported.  swap_jw=True is C17's business.
"""
import contextlib
import io
import time
import traceback

import numpy as np

import lib_mpo as L
from renormalizer.model import Model, Op, OpSum
from renormalizer.mps import Mpo
import renormalizer.mps.symbolic_mpo as sm
from renormalizer.utils import Quantity

ALGOS = ("qr", "Hopcroft-Karp", "Hungarian")
EPS = np.finfo(float).eps


def tol_for(uses_qr, nterms, nsite, scale):
    if uses_qr:
        return 1e-10 * 4 * nsite * (nterms + 1) * scale
    return 512 * EPS * (nterms + nsite + 2) * scale     # (64 was exceeded once in 12000 thorough cases by a factor 1.2: rounding of the dense reference itself)


def probe_kron_order():
    """Mpo.todense() puts site 0 as the most significant kron factor -- checked, not assumed."""
    bs = [dict(kind="spin", dof=0), dict(kind="sho", dof=1, omega=1.0, nbas=3)]
    t = [[["Z", "n"], [0, 1], [1.0, None]]]
    d = Mpo(L.make_model(bs), [L.make_op(x) for x in t], algo="Hopcroft-Karp").todense()
    ref = np.kron(np.diag([1.0, -1.0]), np.diag([0.0, 1.0, 2.0]))
    return d.shape == ref.shape and np.array_equal(np.asarray(d), ref)


# ------------------------------------------------------------------------------------ execution
OFFSET_UNIT = [None]      # unit in which the constant offset of the current case is handed to Mpo (None: atomic units)


def _offset_quantity(offset):
    """the offset (a number in atomic units for the oracle) as the Quantity the case hands to the library"""
    unit = OFFSET_UNIT[0]
    if unit is None or offset == 0:
        return Quantity(offset)
    return Quantity(offset / Quantity(1.0, unit).as_au(), unit)


def build(bs, terms, offset, algo, qn_size=1, via="terms"):
    ops = [L.make_op(t, qn_size) for t in terms]
    if via == "ham_terms":
        model = Model([L.make_basis(s) for s in bs], ops)
        return Mpo(model, offset=_offset_quantity(offset), algo=algo)
    model = L.make_model(bs)
    if via == "opsum" and len(ops) > 1:
        h = len(ops) // 2
        ops = [OpSum(ops[:h])] + ops[h:]
    return Mpo(model, ops, offset=_offset_quantity(offset), algo=algo)


def last_library_frame(e):
    name = "?"
    for fr in traceback.extract_tb(e.__traceback__):
        if fr.filename.endswith("symbolic_mpo.py") or fr.filename.endswith("mpo.py"):
            name = fr.name
            if fr.name == "swap_site" and "len(o) > 0" in (fr.line or ""):
                # an old bond operator comes out of the re-decomposition without any entry (seen for operators with the qr
                # algorithm in their history): a class of its own, not the bond-count assertion of the repaired defect D36
                name = "swap_site:empty-bond-operator"
    return name


def check_construct(bs, terms, offset, algo, qn_size=1, via="terms", ref=None):
    """returns (status, info, mpo): status in ok / mismatch / shape / exception:<T> / d12 / cancel"""
    if ref is None:
        ref = L.dense_reference(bs, terms, offset)
    dense_ref, scale = ref
    try:
        mpo = build(bs, terms, offset, algo, qn_size, via)
        d = np.asarray(mpo.todense())
    except Exception as e:  # noqa: BLE001
        return "exception:" + type(e).__name__, dict(error=f"{type(e).__name__}: {e}"[:300], where=last_library_frame(e)), None
    if d.shape != dense_ref.shape:
        return "shape", dict(observed_shape=list(d.shape), expected_shape=list(dense_ref.shape)), mpo
    err = float(np.max(np.abs(d - dense_ref))) if d.size else 0.0
    tol = tol_for(algo == "qr", len(terms), len(bs), scale)
    info = dict(max_abs_error=err, tolerance=tol, scale=scale, bond_dims=[int(x) for x in mpo.bond_dims])
    if not np.isfinite(err) or err > tol:
        return "mismatch", info, mpo
    return "ok", info, mpo


def shrink_terms(terms, failing, budget=60):
    """greedy removal of terms while `failing(terms)` stays true"""
    terms = list(terms)
    n = 0
    changed = True
    while changed and len(terms) > 1 and n < budget:
        changed = False
        for k in range(len(terms)):
            n += 1
            cand = terms[:k] + terms[k + 1:]
            try:
                if failing(cand):
                    terms = cand
                    changed = True
                    break
            except Exception:  # noqa: BLE001
                pass
            if n >= budget:
                break
    return terms


def kept_rows(bs, terms, offset):
    rows = L.term_rows(bs, terms, offset)
    mx = max(abs(v) for v in rows.values()) if rows else 0.0
    return [k for k, v in rows.items() if mx > 0 and abs(v) > 1e-15 * mx], mx


def all_real_factors(terms):
    return all(t[2][1] is None for t in terms)


# ------------------------------------------------------------------------------------ generators
def gen_case(rng, quick):
    nsite = int(rng.integers(1, 6 if quick else 8))
    qn2 = rng.random() < 0.12
    cap = 600 if quick else 1500
    r = rng.random()
    if r < 0.25:
        kinds = ["spin"]
    elif r < 0.4:
        kinds = ["spin", "elec", "multivac", "multi"]
    else:
        kinds = None
    bs = L.gen_basis_specs(rng, nsite, kinds=kinds, qn2=qn2, dense_cap=cap)
    cplx = rng.random() < 0.45
    mode = ["int", "unit", "wide", "tiny"][int(rng.integers(4))]
    nt = int(rng.integers(1, 13 if quick else 41))
    terms = L.gen_terms(rng, bs, nt, cplx, mode, rich=rng.random() < 0.7, max_support=int(rng.integers(1, 5)))
    if cplx and rng.random() < 0.3:
        # mixed python float / complex factors; a term with a complex-dtype local matrix keeps a complex
        # factor, and at least one complex factor stays so that the MPO dtype is complex
        bases = [L.make_basis(s) for s in bs]
        keep = int(rng.integers(len(terms)))
        for k, t in enumerate(terms):
            if k != keep and rng.random() < 0.5 and not L.term_is_complex_matrix(bs, t, bases):
                t[2] = [t[2][0] if t[2][0] != 0 else 1.0, None]
    offset = float(rng.choice([0.0, 0.0, 0.5, -1.25, 3.0]))
    if mode == "tiny":
        offset *= 1e-15
    via = ["terms", "terms", "terms", "opsum", "ham_terms"][int(rng.integers(5))]
    return dict(basis=bs, terms=terms, offset=offset, qn_size=2 if qn2 else 1, via=via, mode=mode, cplx=cplx)


def gen_many_primary_case(rng):
    """8 half-spins, 320-400 full-support terms of 1-3-letter Pauli words per site: several hundred distinct elementary
    operators and bond dimensions of a few hundred (index tables beyond 16-bit products of their dimensions)"""
    nsite = 8
    bs = [dict(kind="spin", dof=f"s{i}") for i in range(nsite)]
    letters = ["X", "Y", "Z", "sigma_+", "sigma_-"]
    terms = []
    for _ in range(int(rng.integers(320, 401))):
        syms, dofs = [], []
        for i in range(nsite):
            for _k in range(int(rng.integers(1, 4))):
                syms.append(letters[int(rng.integers(len(letters)))])
                dofs.append(f"s{i}")
        terms.append([syms, dofs, [float(np.round(rng.normal(), 6)) or 1.0, float(np.round(rng.normal(), 6))]])
    return dict(basis=bs, terms=terms, offset=0.0, qn_size=1, via="terms", mode="unit", cplx=True)


def check_all_pauli_strings(run, rng, quick):
    """every one of the 4^8 = 65536 Pauli strings on eight spins with its own coefficient: more terms than a 16-bit label
    can count (the construction tables are uint16); dense reference by contracting the coefficient tensor site by site."""
    n = 8
    coef = np.round(rng.normal(size=(4,) * n), 6)
    coef[coef == 0] = 1.0
    names = ["I", "X", "Y", "Z"]
    pm = np.array([[[1, 0], [0, 1]], [[0, 1], [1, 0]], [[0, -1j], [1j, 0]], [[1, 0], [0, -1]]], dtype=complex)
    ref = coef.astype(complex)
    for i in range(n):          # contract the label axis of site i with the Pauli matrices: axes (a_i) -> (r_i, c_i) appended
        ref = np.tensordot(ref, pm, axes=([0], [0]))
    ref = ref.transpose([2 * i for i in range(n)] + [2 * i + 1 for i in range(n)]).reshape(2 ** n, 2 ** n)
    basis = [L.make_basis(dict(kind="spin", dof=f"s{i}")) for i in range(n)]
    model = Model(basis, [])
    ops = []
    for idx in np.ndindex(*coef.shape):
        ops.append(Op(" ".join(names[k] for k in idx), [f"s{i}" for i in range(n)], float(coef[idx])))
    scale = float(np.abs(coef).sum())
    for algo in (("Hopcroft-Karp",) if quick else ("Hopcroft-Karp", "Hungarian")):
        rep = dict(op="construct", algo=algo, case="all 65536 Pauli strings on 8 half-spins, coefficient tensor drawn from the run's RNG stream",
                   nterms=len(ops))
        try:
            d = np.asarray(Mpo(model, ops, algo=algo).todense())
        except Exception as e:  # noqa
            run.violation(f"construct:{algo}:65536-terms:raises:{type(e).__name__}", dict(rep, error=repr(e)[:300]))
            continue
        err = float(np.max(np.abs(d - ref)))
        run.count("case:all-pauli-strings(65536 terms)")
        if not err <= 512 * EPS * 64 * scale:
            run.violation(f"construct:{algo}:65536-terms:dense-mismatch", dict(rep, max_abs_error=err, scale=scale))


def gen_d12_case(rng):
    """all factors real, at least one term whose local matrix has a complex dtype"""
    nsite = int(rng.integers(1, 4))
    bs = L.gen_basis_specs(rng, nsite, kinds=["spin", "sho", "sine"], dense_cap=300)
    bs[0] = dict(kind="spin", dof="y0") if rng.random() < 0.6 else dict(kind="sho", dof="y0", omega=1.0, nbas=3, x0=0.0, dvr=False)
    terms = L.gen_terms(rng, bs, int(rng.integers(0, 4)), False, "unit")
    k = int(rng.integers(4))
    if bs[0]["kind"] == "spin":
        special = [[["Y"], ["y0"]], [["Y", "Y"], ["y0", "y0"]], [["sigma_y"], ["y0"]], [["X", "Y"], ["y0", "y0"]]][k]
        if nsite > 1 and bs[1]["kind"] == "spin" and rng.random() < 0.5:
            special = [["Y", "Y"], ["y0", bs[1]["dof"]]]        # Y (x) Y : a real operator
    else:
        special = [[["p"], ["y0"]], [["x", "p"], ["y0", "y0"]], [["p", "x"], ["y0", "y0"]], [["p", "p", "p"], ["y0"] * 3]][k]
    terms.insert(int(rng.integers(len(terms) + 1)), [special[0], special[1], [float(np.round(rng.normal(), 3)) or 1.0, None]])
    return dict(basis=bs, terms=terms, offset=float(rng.choice([0.0, 0.5])), qn_size=1, via="terms", mode="unit", cplx=False)


# ------------------------------------------------------------------------------------ search
def features(case):
    f = []
    kinds = {s["kind"] for s in case["basis"]}
    if kinds & {"multi", "multivac"}:
        f.append("multi-dof")
    if case["offset"] != 0:
        f.append("offset")
        if case.get("offset_unit"):
            f.append("offset-unit=" + case["offset_unit"])
    if case["cplx"]:
        f.append("complex")
    if case["qn_size"] == 2:
        f.append("qn2")
    if len(case["basis"]) == 1:
        f.append("one-site")
    return f


def run_construct(run, case, stats):
    bs, terms, offset = case["basis"], case["terms"], case["offset"]
    try:
        ref = L.dense_reference(bs, terms, offset)
    except Exception as e:  # noqa: BLE001
        run.count(f"generator-error:oracle:{type(e).__name__}")
        return {}
    kept, mx = kept_rows(bs, terms, offset)
    bases = [L.make_basis(s) for s in bs]
    d12_class = all_real_factors(terms) and any(L.term_is_complex_matrix(bs, t, bases) for t in terms)
    built = {}
    for algo in ALGOS:
        status, info, mpo = check_construct(bs, terms, offset, algo, case["qn_size"], case["via"], ref)
        stats["n"] += 1
        rep = dict(op="construct", algo=algo, basis=bs, terms=terms, offset=offset, qn_size=case["qn_size"], via=case["via"],
                   term_encoding="[symbols, dofs, [re, im]]; im = null means a real python float factor; {'t': [...]} is a tuple DoF name",
                   features=features(case), result=info)
        if status == "ok":
            built[algo] = mpo
            stats["worst"] = max(stats["worst"], info["max_abs_error"] / info["tolerance"])
            if info["max_abs_error"] == 0:
                run.count("construct:exact-equality")
            continue
        if status.startswith("exception") and len(kept) == 0:
            run.count("rejected:total-cancellation")
            continue
        if case.get("mode") == "tiny" and algo == "qr" and status == "exception:IndexError":
            run.violation("construct:qr:tiny-scale:IndexError", rep)
            continue
        if status in ("exception:UFuncTypeError", "exception:_UFuncOutputCastingError") and d12_class:
            run.count("D12:hit")
            run.violation("mpo-dtype:real-factor-complex-matrix:UFuncTypeError", rep)
            continue
        if status == "mismatch":
            small = shrink_terms(terms, lambda ts: check_construct(bs, ts, offset, algo, case["qn_size"], case["via"])[0] == "mismatch")
            rep["shrunk_terms"] = small
            run.violation(f"construct:{algo}:dense-mismatch", rep)
        elif status == "shape":
            run.violation(f"construct:{algo}:shape", rep)
        else:
            small = shrink_terms(terms, lambda ts: check_construct(bs, ts, offset, algo, case["qn_size"], case["via"])[0] == status)
            rep["shrunk_terms"] = small
            run.violation(f"construct:{algo}:{status}", rep)
    return built


def exec_swaps(bs, terms, offset, qn_size, via, algo, swaps, mpo=None):
    """build (unless an Mpo built with `algo` from exactly these inputs is passed) and perform the swaps
    [[i, swap_algo], ...].  A swap that raises AssertionError is recorded and skipped (the operator must
    then be unchanged); anything else that goes wrong ends the sequence.
    returns (events, n_ok, worst) with events = [(signature, index of the swap, result dict)]"""
    n = len(bs)
    events = []
    if mpo is None:
        mpo = build(bs, terms, offset, algo, qn_size, via)
    kept, _ = kept_rows(bs, terms, offset)
    cur = list(bs)
    uses_qr = algo == "qr"
    n_ok = 0
    worst = 0.0
    # dynamic range of the factors: the qr algorithm leaves rounding noise relative to the LARGEST factor, the library's internal
    # assertions compare relative to the entry at hand; failures of those assertions are classified by this input class
    mags = [abs(complex(L.term_factor(t))) for t in terms]
    mags = [m for m in mags if m > 0] + ([abs(offset)] if offset else [])
    wide = ":factor-range>=1e3" if (mags and max(mags) / min(mags) >= 1e3) else ""
    for idx, (i, salgo) in enumerate(swaps):
        new = list(cur)
        new[i], new[i + 1] = new[i + 1], new[i]
        cls = "qr" if salgo == "qr" else "graph"
        try:
            with contextlib.redirect_stdout(io.StringIO()):      # the library prints "ok" before one of its asserts
                mpo.try_swap_site(L.make_model(new), False, algo=salgo)
        except Exception as e:  # noqa: BLE001
            res = dict(error=f"{type(e).__name__}: {e}"[:300], where=last_library_frame(e))
            if isinstance(e, AttributeError) and len(kept) == 1:
                events.append(("swap:single-term-operator:AttributeError", idx, res))
                return events, n_ok, worst
            if isinstance(e, AssertionError):
                # qr anywhere in the object's history (construction or an earlier successful swap) leaves
                # rounding-noise entries in the bond operators; keep that input class in the signature
                hist = "" if cls == "qr" else (":qr-in-history" if uses_qr else ":graph-only-history")
                fn = last_library_frame(e)
                if fn == "check_swap_consistency":
                    # Is the library's self-check right to object?  Repeat the same swap on the (unchanged)
                    # object with the self-check switched off and judge the result with the dense oracle.
                    verdict = retry_without_selfcheck(mpo, new, salgo, terms, offset, uses_qr or salgo == "qr")
                    qrw = wide if (cls == "qr" or uses_qr) else ""
                    events.append((f"swap:{cls}:AssertionError@check_swap_consistency{hist}:{verdict}{qrw}", idx, res))
                    if verdict == "spurious-result-correct-without-check":
                        cur = new
                        uses_qr = uses_qr or salgo == "qr"      # the retry DID carry out the swap with that algorithm
                        continue
                    return events, n_ok, worst
                qrw = wide if (cls == "qr" or uses_qr) else ""
                events.append((f"swap:{cls}:AssertionError@{fn}{hist}{qrw}", idx, res))
            else:
                events.append((f"swap:{cls}:exception:{type(e).__name__}", idx, res))
                return events, n_ok, worst
            # a failed swap must leave the operator as it was
            try:
                dref, scale = L.dense_reference(cur, terms, offset)
                d = np.asarray(mpo.todense())
                tol = tol_for(uses_qr, len(terms), n, scale)
                good = d.shape == dref.shape and bool(np.max(np.abs(d - dref)) <= tol)
            except Exception:  # noqa: BLE001
                good = False
            if not good:
                events.append(("swap:failed-swap-corrupts-operator", idx, res))
                return events, n_ok, worst
            continue
        cur = new
        uses_qr = uses_qr or salgo == "qr"
        dref, scale = L.dense_reference(cur, terms, offset)
        try:
            d = np.asarray(mpo.todense())
        except Exception as e:  # noqa: BLE001
            events.append((f"swap:{cls}:exception:{type(e).__name__}", idx, dict(error=f"todense after swap: {type(e).__name__}: {e}"[:300])))
            return events, n_ok, worst
        tol = tol_for(uses_qr, len(terms), n, scale)
        err = float(np.max(np.abs(d - dref))) if d.shape == dref.shape else float("inf")
        if not err <= tol:
            events.append((f"swap:{cls}:dense-mismatch", idx,
                           dict(max_abs_error=err, tolerance=tol, scale=scale, site_order_after=[s["dof"] for s in cur],
                                bond_dims=[int(x) for x in mpo.bond_dims])))
            return events, n_ok, worst
        worst = max(worst, err / tol)
        n_ok += 1
    return events, n_ok, worst


def retry_without_selfcheck(mpo, new, salgo, terms, offset, uses_qr):
    orig = sm.check_swap_consistency
    sm.check_swap_consistency = lambda *a, **k: None
    try:
        with contextlib.redirect_stdout(io.StringIO()):
            mpo.try_swap_site(L.make_model(new), False, algo=salgo)
        dref, scale = L.dense_reference(new, terms, offset)
        d = np.asarray(mpo.todense())
        tol = tol_for(uses_qr, len(terms), len(new), scale)
        if d.shape == dref.shape and bool(np.max(np.abs(d - dref)) <= tol):
            return "spurious-result-correct-without-check"
        return "result-wrong-without-check"
    except Exception as e:  # noqa: BLE001
        return "result-wrong-without-check:" + type(e).__name__
    finally:
        sm.check_swap_consistency = orig


def shrink_swap_case(bs, terms, offset, qn_size, via, algo, swaps, sig):
    """smaller (terms, swaps) on which the same signature is still produced"""
    def fails(ts, sw):
        try:
            ev, _, _ = exec_swaps(bs, ts, offset, qn_size, via, algo, sw)
        except Exception:  # noqa: BLE001
            return False
        return any(e[0] == sig for e in ev)
    swaps = [list(s) for s in swaps]
    terms = list(terms)
    for _ in range(3):
        before = (len(terms), len(swaps))
        k = 0
        while k < len(swaps) and len(swaps) > 1:
            cand = swaps[:k] + swaps[k + 1:]
            if fails(terms, cand):
                swaps = cand
            else:
                k += 1
        terms = shrink_terms(terms, lambda ts: fails(ts, swaps), budget=80)
        if (len(terms), len(swaps)) == before:
            break
    return terms, swaps


def run_swaps(run, rng, case, algo, mpo, stats, nswap):
    bs, terms, offset = case["basis"], case["terms"], case["offset"]
    n = len(bs)
    if n < 2:
        return
    r = rng.random()
    fixed = None if r < 0.3 else ALGOS[int(rng.integers(3))]
    swaps = [[int(rng.integers(n - 1)), fixed or ALGOS[int(rng.integers(3))]] for _ in range(nswap)]
    for _, salgo in swaps:
        run.count(f"swap:{algo}->{salgo}")
    events, n_ok, worst = exec_swaps(bs, terms, offset, case["qn_size"], case["via"], algo, swaps, mpo)
    stats["n"] += len(swaps)
    stats["swaps_ok"] += n_ok
    stats["worst"] = max(stats["worst"], worst)
    for sig, idx, res in events:
        run.count("swap-event:" + sig)
        rep = dict(op="construct, then try_swap_site(new_model, False, algo) for each [i, algo] of `swaps` (i = left site of the "
                      "pair in the then-current order; a swap that raised AssertionError is skipped)",
                   construct_algo=algo, basis=bs, terms=terms, offset=offset, qn_size=case["qn_size"], via=case["via"],
                   swaps=swaps[: idx + 1], features=features(case), result=res,
                   term_encoding="[symbols, dofs, [re, im]]; im = null means a real python float factor; {'t': [...]} is a tuple DoF name")
        if sig not in stats["shrunk"]:
            stats["shrunk"].add(sig)
            try:
                st, ss = shrink_swap_case(bs, terms, offset, case["qn_size"], case["via"], algo, swaps[: idx + 1], sig)
                rep["shrunk_terms"], rep["shrunk_swaps"] = st, ss
            except Exception:  # noqa: BLE001
                pass
        run.violation(sig, rep)


def search(run, rng, quick):
    t0 = time.time()
    budget = 55 if quick else 560          # safety stop only; the case count below is what normally ends the run
    ncase = 600 if quick else 1800
    stats = dict(n=0, worst=0.0, swaps_ok=0, shrunk=set())
    if not probe_kron_order():
        run.violation("todense:kron-order-probe", dict(op="Mpo of Z(site0) n(site1) on spin x SHO(3)", expected="kron(Z, n)"), True)
    seen = set()
    distinct = 0
    it = 0
    while it < ncase and time.time() - t0 < budget:
        it += 1
        d12 = (it % 12 == 0)
        many = (it == 5) or ((not quick) and it % 400 == 5)
        try:
            case = gen_many_primary_case(rng) if many else (gen_d12_case(rng) if d12 else gen_case(rng, quick))
        except Exception as e:  # noqa: BLE001
            run.count(f"generator-error:{type(e).__name__}")
            continue
        bs, terms = case["basis"], case["terms"]
        # the offset is a Quantity: half of the non-zero offsets are given in another unit than atomic units
        case["offset_unit"] = str(rng.choice(["eV", "meV", "cm^{-1}", "K", "ev", "cm-1"])) if (case["offset"] != 0 and rng.random() < 0.5) else None
        OFFSET_UNIT[0] = case["offset_unit"]
        run.count("case:many-primary-operators" if many else ("case:d12-class" if d12 else f"case:mode={case['mode']}"))
        run.count(f"case:nsite={len(bs)}")
        run.count(f"case:nterms<={4 * ((len(terms) + 3) // 4)}")
        for f in features(case):
            run.count("case:" + f)
        for k in {s["kind"] for s in bs}:
            run.count("basis:" + k)
        built = run_construct(run, case, stats)
        try:
            kept, _ = kept_rows(bs, terms, case["offset"])
            key = repr((sorted(kept, key=repr), [s["kind"] for s in bs]))
            if len(kept) >= 2 and len(bs) >= 2 and key not in seen and built:
                seen.add(key)
                distinct += 1
        except Exception:  # noqa: BLE001
            pass
        # swaps: one sequence per construction algorithm that succeeded (fresh objects: swapping is in place)
        if case["mode"] == "tiny":
            # operators whose every coefficient is below 1e-12: the swap machinery compares regrouped coefficients with ABSOLUTE
            # tolerances (known finding "tiny-scale"); construction is checked, swaps are not explored at this scale
            run.count("tiny-scale:swaps-not-explored")
        elif len(bs) >= 2:
            for algo in list(built):
                if rng.random() < 0.75:
                    run_swaps(run, rng, case, algo, built[algo], stats, nswap=int(rng.integers(1, 6)))
        if it <= 3 and built:
            a = next(iter(built))
            run.sample(dict(nsite=len(bs), kinds=[s["kind"] for s in bs], nterms=len(terms), offset=case["offset"],
                            algo=a, bond_dims=[int(x) for x in built[a].bond_dims]))
    try:
        check_all_pauli_strings(run, rng, quick)
    except MemoryError:
        run.count("all-pauli-strings:skipped:MemoryError")
    run.count("max_err_over_tol_permille", int(1000 * stats["worst"]) - run.counts.get("max_err_over_tol_permille", 0))
    run.count("swaps-succeeded", stats["swaps_ok"])
    run.cov["evaluations"] = run.cov.get("evaluations", 0) + stats["n"]
    run.cov["distinct_nontrivial"] = run.cov.get("distinct_nontrivial", 0) + distinct
    run.cov["rule"] = ("evaluations = constructions + swap attempts; distinct_nontrivial = distinct (deduplicated symbolic term "
                       "table, basis kinds) with >= 2 sites and >= 2 rows for which at least one algorithm returned an operator")
