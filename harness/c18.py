"""C18 — numerical kernels meet their contracts.
L1: Lean: assembly of the symmetry-blocked factorisation (reconstruction of the allowed part,
    cross-sector orthogonality, labels, permutation invariance of the sort, 'Invalid quantum number'
    iff no sector pairs) for every label pattern, kernels as parameters.
L2: the HYPOTHESES of those theorems are checked on the real svd_qn output: support of every column
    inside one sector (blockrecover), per-sector factorisation of the gathered block.
L3: Krylov exponential vs scipy expm, svd_qn / eigh_qn oracles (search_c18)."""
import numpy as np

import common
import generic_check


def l2_svdqn(run, rng, quick):
    from renormalizer.mps import svd_qn
    n = 120 if quick else 1200
    done = 0
    for _ in range(n):
        q = 1 if rng.random() < 0.7 else 2
        nl, nr = int(rng.integers(1, 7)), int(rng.integers(1, 7))
        ql = rng.integers(-1, 3, size=(nl, q))
        qr = rng.integers(-1, 3, size=(nr, q))
        qntot = rng.integers(0, 3, size=q)
        cplx = rng.random() < 0.4
        a = rng.standard_normal((nl, nr)) + (1j * rng.standard_normal((nl, nr)) if cplx else 0)
        mode = str(rng.choice(["svd-econ", "svd-full", "qr-L", "qr-R"]))
        case = dict(mode=mode, ql=ql.tolist(), qr=qr.tolist(), qntot=qntot.tolist(), a_re=np.real(a).tolist(), a_im=np.imag(a).tolist())
        allowed = np.all(ql[:, None, :] + qr[None, :, :] == qntot[None, None, :], axis=-1)
        try:
            if mode.startswith("svd"):
                u, su, nql, v, sv, nqr = svd_qn.svd_qn(a, ql, qr, qntot, full_matrices=(mode == "svd-full"))
                s = su
            else:
                u, nql, v, nqr = svd_qn.svd_qn(a, ql, qr, qntot, QR=True, system=mode[-1], full_matrices=False)
                s = None
        except ValueError as e:
            if "Invalid quantum number" in str(e):
                run.count("invalid-qn")
                if allowed.any():
                    run.violation("svd_qn:invalid-qn-although-sector-pairs", dict(case=case))
                continue
            raise
        done += 1
        run.count("mode=" + mode)
        nql = np.array(nql).reshape(-1, q)
        nqr = np.array(nqr).reshape(-1, q)
        scale = max(1.0, float(np.max(np.abs(a))))
        # hypothesis SupportU / SupportV of the Lean theorem
        for mat, labs, ax, name in ((u, nql, ql, "U"), (v, nqr, qr, "V")):
            nz = np.abs(mat) > 1e-12 * scale
            for k in range(mat.shape[1]):
                rows = np.where(nz[:, k])[0]
                if len(rows) and not np.all(ax[rows] == labs[k][None, :]):
                    run.violation(f"svd_qn:{name}-column-leaves-its-sector", dict(case=case, column=int(k)))
        if mode != "svd-full" and (len(nql) != len(nqr) or not np.all(nql + nqr == qntot[None, :])):
            run.violation("svd_qn:new-labels-do-not-pair", dict(case=case))
        # conclusion (also the property): reconstruction of the allowed part
        if s is not None:
            k = min(u.shape[1], v.shape[1], len(s))
            rec = (u[:, :k] * s[:k][None, :]) @ v[:, :k].T
        else:
            rec = u @ v.T
        if np.max(np.abs(rec - a * allowed)) > 1e-10 * scale * max(nl, nr):
            run.violation("svd_qn:reconstruction", dict(case=case, deviation=float(np.max(np.abs(rec - a * allowed)))))
    return done


def l2_krylov_invariant(run, rng, quick):
    """conclusion of `RenoVerif.Krylov.krylov_exact` on the real routine: a start vector inside an invariant subspace of small
    dimension m (the Lanczos recurrence closes after m steps) must be propagated EXACTLY (to rounding, far below the
    routine's tolerance), for real and imaginary dt, real and complex Hermitian A, any block size."""
    import scipy.linalg
    from renormalizer.lib.krylov.krylov import expm_krylov
    done = 0
    for _ in range(40 if quick else 400):
        n = int(rng.integers(4, 40))
        m = int(rng.integers(1, min(n, 6) + 1))
        cplx = bool(rng.random() < 0.5)
        q, _ = np.linalg.qr(rng.normal(size=(n, n)) + (1j * rng.normal(size=(n, n)) if cplx else 0))
        h1 = rng.normal(size=(m, m)) + (1j * rng.normal(size=(m, m)) if cplx else 0)
        h2 = rng.normal(size=(n - m, n - m)) + (1j * rng.normal(size=(n - m, n - m)) if cplx else 0)
        blk = scipy.linalg.block_diag((h1 + h1.conj().T) / 2, (h2 + h2.conj().T) / 2)
        a = q @ blk @ q.conj().T
        a = (a + a.conj().T) / 2
        coef = rng.normal(size=m) + (1j * rng.normal(size=m) if (cplx or rng.random() < 0.5) else 0)
        v = q[:, :m] @ coef
        if not cplx and np.iscomplexobj(v) and rng.random() < 0.5:
            v = v.real
            if np.linalg.norm(v) < 1e-8:
                continue
        dt = float(rng.uniform(0.05, 1.5)) * (1j if rng.random() < 0.5 else -1.0) * (1 if rng.random() < 0.5 else -1)
        bs = int(rng.choice([2, 3, 5, 50]))
        try:
            got, j = expm_krylov(lambda y: a @ y, dt, v.copy(), block_size=bs)
        except Exception as e:  # noqa
            run.violation(f"krylov:invariant-subspace:raises:{type(e).__name__}", dict(n=n, m=m, complex_A=cplx, dt=str(dt), block_size=bs, error=repr(e)[:200]))
            continue
        ref = scipy.linalg.expm(dt * a) @ v
        err = float(np.linalg.norm(np.asarray(got).ravel() - ref) / np.linalg.norm(ref))
        done += 1
        run.count(f"krylov-invariant:m={m}:{'complexA' if cplx else 'realA'}:{'imag-dt' if np.iscomplex(dt) else 'real-dt'}")
        if err > 1e-9:
            run.violation("krylov:invariant-subspace:not-exact",
                          dict(n=n, m=m, complex_A=cplx, dt=str(dt), block_size=bs, rel_err=err, krylov_steps=int(j),
                               A=dict(re=a.real.tolist(), im=np.imag(a).tolist()), v=dict(re=np.real(v).tolist(), im=np.imag(v).tolist()),
                               what="start vector in an invariant subspace of dimension m: the closed Lanczos recurrence is exact (RenoVerif.Krylov.krylov_exact)"))
    run.cov["krylov_invariant_cases"] = done
    # long recurrences (more than 50 Lanczos vectors, the default block size: buffer growth, loss of orthogonality):
    # large |dt| * spectral width, real-time (complex basis) and imaginary-time steps
    nlong = 0
    for _ in range(6 if quick else 40):
        n = int(rng.integers(120, 260))
        cplx = bool(rng.random() < 0.6)
        h = rng.normal(size=(n, n)) + (1j * rng.normal(size=(n, n)) if cplx else 0)
        a = (h + h.conj().T) / 2
        w = np.linalg.eigvalsh(a)
        width = float(w[-1] - w[0])
        real_time = bool(rng.random() < 0.7)
        x = float(rng.uniform(45, 90)) * 2 / width          # width * |dt| / 2 in [45, 90]
        dt = (1j if rng.random() < 0.5 else -1j) * x if real_time else -x / 6
        v = rng.normal(size=n) + (1j * rng.normal(size=n) if (cplx or real_time or rng.random() < 0.5) else 0)
        bs = int(rng.choice([5, 50, 50]))
        try:
            got, j = expm_krylov(lambda y: a @ y, dt, v.copy(), block_size=bs)
        except Exception as e:  # noqa
            run.violation(f"krylov:long-recurrence:raises:{type(e).__name__}", dict(n=n, complex_A=cplx, dt=str(dt), block_size=bs, error=repr(e)[:200]))
            continue
        ref = scipy.linalg.expm(dt * a) @ v
        err = float(np.linalg.norm(np.asarray(got).ravel() - ref) / np.linalg.norm(ref))
        nlong += 1
        run.count(f"krylov-long:{'real-time' if real_time else 'imag-time'}:{'complexA' if cplx else 'realA'}:steps>{50 if j > 50 else 0}")
        if err > 1e-5:
            run.violation(f"krylov:long-recurrence:{'real-time' if real_time else 'imag-time'}:error",
                          dict(n=n, complex_A=cplx, dt=str(dt), block_size=bs, rel_err=err, krylov_steps=int(j), np_seed_hint="matrix = (h+h^H)/2 of the run's RNG stream",
                               what="a local problem that needs more than 50 Lanczos vectors is propagated wrongly"))
    run.cov["krylov_long_recurrences"] = nlong
    # nearly invariant subspaces: the start vector lives in a small block that is coupled to the rest by one weak matrix
    # element (1e-3..1e-2); the recurrence crosses the link late, and a convergence test that looks only at the leading
    # coefficients stops too early. The routine's own criterion is |delta| <= 1e-8; allow 3e-6 relative.
    nweak = 0
    for _ in range(60 if quick else 500):
        n = int(rng.integers(12, 40))
        m = int(rng.integers(3, 7))
        cplx = bool(rng.random() < 0.5)

        def herm(k):
            h = rng.normal(size=(k, k)) + (1j * rng.normal(size=(k, k)) if cplx else 0)
            return (h + h.conj().T) / 2
        a = scipy.linalg.block_diag(herm(m), herm(n - m)).astype(complex if cplx else float)
        eps = float(rng.uniform(1e-3, 1e-2))
        i, j2 = int(rng.integers(m)), m + int(rng.integers(n - m))
        a[i, j2] += eps
        a[j2, i] += eps
        x = float(rng.uniform(4, 12)) / float(np.linalg.norm(a, 2))
        dt = ((1j if rng.random() < 0.5 else -1j) * x) if rng.random() < 0.6 else -x
        v = np.zeros(n, dtype=complex if (cplx or rng.random() < 0.5) else float)
        v[:m] = rng.normal(size=m)
        bs = int(rng.choice([3, 5, 50]))
        try:
            got, j = expm_krylov(lambda y: a @ y, dt, v.copy(), block_size=bs)
        except Exception as e:  # noqa
            run.violation(f"krylov:weak-link:raises:{type(e).__name__}", dict(n=n, m=m, complex_A=cplx, dt=str(dt), block_size=bs, error=repr(e)[:200]))
            continue
        ref = scipy.linalg.expm(dt * a) @ v
        err = float(np.linalg.norm(np.asarray(got).ravel() - ref) / np.linalg.norm(ref))
        nweak += 1
        run.count(f"krylov-weak-link:m={m}:{'imag-dt' if np.iscomplex(dt) else 'real-dt'}")
        if err > 3e-6:
            run.violation("krylov:weak-link:stopped-early",
                          dict(n=n, m=m, complex_A=cplx, dt=str(dt), block_size=bs, link=eps, rel_err=err, krylov_steps=int(j),
                               A=dict(re=a.real.tolist(), im=np.imag(a).tolist()), v=dict(re=np.real(v).tolist(), im=np.imag(v).tolist()),
                               what="start vector in a block coupled to the rest by one weak element: result differs from expm(dt A) v by more than 3e-6"))
    # the same situation in the Lanczos basis itself: A = Q T Q^H with T tridiagonal, an n1 x n1 block, ONE small off-diagonal
    # entry (3e-3..6e-3), then a second block; v = |v| Q e_0, so the recurrence walks along T and crosses the weak link at
    # step n1 exactly (n1 odd: right between two of the routine's convergence checks)
    for _ in range(40 if quick else 300):
        n = int(rng.integers(30, 60))
        n1 = int(rng.choice([5, 5, 7, 9]))
        al = np.concatenate([rng.uniform(-2, 2, n1), rng.uniform(-4, 4, n - n1)])
        be = np.concatenate([rng.uniform(1.5, 3.0, n1 - 1), [rng.uniform(3e-3, 6e-3)], rng.uniform(1.5, 3.0, n - n1 - 1)])
        tri = np.diag(al) + np.diag(be, 1) + np.diag(be, -1)
        cplx = bool(rng.random() < 0.5)
        q, _ = np.linalg.qr(rng.normal(size=(n, n)) + (1j * rng.normal(size=(n, n)) if cplx else 0))
        a = q @ tri @ q.conj().T
        a = (a + a.conj().T) / 2
        v = float(rng.uniform(0.5, 3.0)) * q[:, 0]
        dt = [-1j, 1.0, 1j, -1.0][int(rng.integers(4))] * float(rng.uniform(0.7, 1.0))
        bs = int(rng.integers(2, 51))
        try:
            got, j = expm_krylov(lambda y: a @ y, dt, v.copy(), block_size=bs)
        except Exception as e:  # noqa
            run.violation(f"krylov:weak-link:raises:{type(e).__name__}", dict(n=n, n1=n1, complex_A=cplx, dt=str(dt), block_size=bs, error=repr(e)[:200]))
            continue
        ref = scipy.linalg.expm(dt * a) @ v
        err = float(np.linalg.norm(np.asarray(got).ravel() - ref) / np.linalg.norm(ref))
        nweak += 1
        run.count(f"krylov-weak-link:tridiagonal:n1={n1}")
        if err > 3e-6:
            run.violation("krylov:weak-link:stopped-early",
                          dict(n=n, n1=n1, complex_A=cplx, dt=str(dt), block_size=bs, link=float(be[n1 - 1]), rel_err=err, krylov_steps=int(j),
                               alpha=al.tolist(), beta=be.tolist(), family="tridiagonal chain with one weak link, start vector at its head",
                               what="result differs from expm(dt A) v by more than 3e-6"))
    run.cov["krylov_weak_link_cases"] = nweak
    return done


if __name__ == "__main__":
    common.main_wrapper(lambda: generic_check.run_check(
        "C18", "proof", ["RenoVerif/Props/C18.lean", "RenoVerif/Props/C18Krylov.lean"], [l2_svdqn, l2_krylov_invariant],
        ["LAPACK SVD/QR/RQ/eigh and eigh_tridiagonal are parameters; their contracts are checked on every recorded call",
         "the Krylov exponential: exactness on an invariant Krylov space is proved (polynomial intertwining) and checked on the real routine; the floating-point "
         "Lanczos process and the error estimate for a non-closed recurrence have no exact model: numerical contract test (partial)"],
        "random label patterns (1-2 components, empty / one-sided sectors), random real/complex blocks, SVD economic/full and QR/RQ modes"))
