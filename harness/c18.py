"""C18 — numerical kernels meet their contracts.
L1: Lean: assembly of the symmetry-blocked factorisation (reconstruction of the allowed part,
    cross-sector orthogonality, labels, permutation invariance of the sort, 'Invalid quantum number'
    iff no sector pairs) for every label pattern, kernels as parameters.
L2: the HYPOTHESES of those theorems are checked on the real svd_qn output: support of every column
    inside one sector (blockrecover), per-sector factorisation of the gathered block.
L3: Krylov exponential vs scipy expm, svd_qn / eigh_qn oracles (search_c18)."""
import numpy as np

import common
import generic_check


def l2_svdqn(run, rng, quick):
    from renormalizer.mps import svd_qn
    n = 120 if quick else 1200
    done = 0
    for _ in range(n):
        q = 1 if rng.random() < 0.7 else 2
        nl, nr = int(rng.integers(1, 7)), int(rng.integers(1, 7))
        ql = rng.integers(-1, 3, size=(nl, q))
        qr = rng.integers(-1, 3, size=(nr, q))
        qntot = rng.integers(0, 3, size=q)
        cplx = rng.random() < 0.4
        a = rng.standard_normal((nl, nr)) + (1j * rng.standard_normal((nl, nr)) if cplx else 0)
        mode = str(rng.choice(["svd-econ", "svd-full", "qr-L", "qr-R"]))
        case = dict(mode=mode, ql=ql.tolist(), qr=qr.tolist(), qntot=qntot.tolist(), a_re=np.real(a).tolist(), a_im=np.imag(a).tolist())
        allowed = np.all(ql[:, None, :] + qr[None, :, :] == qntot[None, None, :], axis=-1)
        try:
            if mode.startswith("svd"):
                u, su, nql, v, sv, nqr = svd_qn.svd_qn(a, ql, qr, qntot, full_matrices=(mode == "svd-full"))
                s = su
            else:
                u, nql, v, nqr = svd_qn.svd_qn(a, ql, qr, qntot, QR=True, system=mode[-1], full_matrices=False)
                s = None
        except ValueError as e:
            if "Invalid quantum number" in str(e):
                run.count("invalid-qn")
                if allowed.any():
                    run.violation("svd_qn:invalid-qn-although-sector-pairs", dict(case=case))
                continue
            raise
        done += 1
        run.count("mode=" + mode)
        nql = np.array(nql).reshape(-1, q)
        nqr = np.array(nqr).reshape(-1, q)
        scale = max(1.0, float(np.max(np.abs(a))))
        # hypothesis SupportU / SupportV of the Lean theorem
        for mat, labs, ax, name in ((u, nql, ql, "U"), (v, nqr, qr, "V")):
            nz = np.abs(mat) > 1e-12 * scale
            for k in range(mat.shape[1]):
                rows = np.where(nz[:, k])[0]
                if len(rows) and not np.all(ax[rows] == labs[k][None, :]):
                    run.violation(f"svd_qn:{name}-column-leaves-its-sector", dict(case=case, column=int(k)))
        if mode != "svd-full" and (len(nql) != len(nqr) or not np.all(nql + nqr == qntot[None, :])):
            run.violation("svd_qn:new-labels-do-not-pair", dict(case=case))
        # conclusion (also the property): reconstruction of the allowed part
        if s is not None:
            k = min(u.shape[1], v.shape[1], len(s))
            rec = (u[:, :k] * s[:k][None, :]) @ v[:, :k].T
        else:
            rec = u @ v.T
        if np.max(np.abs(rec - a * allowed)) > 1e-10 * scale * max(nl, nr):
            run.violation("svd_qn:reconstruction", dict(case=case, deviation=float(np.max(np.abs(rec - a * allowed)))))
    return done


if __name__ == "__main__":
    common.main_wrapper(lambda: generic_check.run_check(
        "C18", "proof", ["RenoVerif/Props/C18.lean"], [l2_svdqn],
        ["LAPACK SVD/QR/RQ/eigh and eigh_tridiagonal are parameters; their contracts are checked on every recorded call",
         "the Krylov exponential (Lanczos with square roots) has no exact model: numerical contract test only (partial)"],
        "random label patterns (1-2 components, empty / one-sided sectors), random real/complex blocks, SVD economic/full and QR/RQ modes"))
