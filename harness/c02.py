"""C02 — TTNO construction is exact and independent of the tree topology.
L1: Lean: soundness of the tree certificate checker (value of the root expansion = value of the
    operator table for every interpretation), bilinearity of the child-combination step.
L2: the implementation's `symbolic_ttno` (per node: cells [in_1..in_m, out] holding lists of local
    operator terms) is sent to the Lean checker together with an operator table computed
    INDEPENDENTLY from the input terms (one local key per node, post-order); graph algorithms and QR.
L3: dense oracle TTNO.todense vs Kronecker sum vs chain MPO (search_c02)."""
from fractions import Fraction

import numpy as np

import common
from common import Run, Infra


def grat(c):
    c = complex(c)
    return f"{common.rat(Fraction(c.real))}:{common.rat(Fraction(c.imag))}"


def norm_sym(s):
    return s.replace(r"b^\dagger + b", r"b^\dagger+b")


def main():
    run = Run("C02", level="proof")
    quick = run.tier != "thorough"
    rng = np.random.default_rng(run.seed)
    l1 = run.l1(["RenoVerif/Props/C02.lean", "RenoVerif/Props/C02Auto.lean", "RenoVerif/Lemmas/FormalSum.lean"])
    if not l1["build_ok"]:
        raise Infra("hand-written Lean library failed to build/audit: " + str(l1.get("bad")) + l1.get("log", "")[-800:])
    import lib_tree as lt
    from renormalizer.tn.tree import TTNO

    ncase = 40 if quick else 400
    reqs, meta = [], []
    for ic in range(ncase):
        nb = int(rng.integers(1, 6))
        descs = lt.random_basis_descs(rng, nb, qn_mode="none")
        descs2, spec = lt.random_tree_spec(rng, descs)
        basis_list = lt.make_basis_list(descs2)
        tree, nodes = lt.build_basis_tree(spec, basis_list)
        terms = lt.random_terms(rng, descs2, int(rng.integers(1, 8)), factor_scale="unit")
        # dyadic factors so that duplicate merging is exact
        for t in terms:
            t["factor"] = (round(t["factor"] * 8) / 8) or 0.5
        ops = lt.terms_to_ops(rng, terms, explicit_qn=False)
        post = tree.postorder_list()
        node_ids = {id(n): i for i, n in enumerate(post)}
        dof_to_node = {}
        first_dof = {}
        for i, n in enumerate(post):
            for ib, b in enumerate(n.basis_sets):
                for d in (b.dofs if hasattr(b, "dofs") else [b.dof]):
                    dof_to_node[d] = (i, ib)
                first_dof[(i, ib)] = (b.dof[0] if b.multi_dof else b.dof)
        keyid = {}

        def kid(k):
            return keyid.setdefault(k, len(keyid))

        def node_key(i, atoms):
            """atoms: list of (sym, dof) of one term restricted to node i, in written order"""
            n = post[i]
            per = {ib: [] for ib in range(len(n.basis_sets))}
            for s, d in atoms:
                if s == "I":
                    continue        # identity factors carry no information (sound: I is the unit)
                per[dof_to_node[d][1]].append((norm_sym(s), d))
            key = []
            for ib in range(len(n.basis_sets)):
                key += per[ib] if per[ib] else [("I", first_dof[(i, ib)])]
            return kid((i, tuple(key)))
        # independent table
        rows = []
        for op in ops:
            if op.factor == 0:
                continue
            per_node = {}
            for s, d in zip(op.split_symbol, op.dofs):
                per_node.setdefault(dof_to_node[d][0], []).append((s, d))
            rows.append(([node_key(i, per_node.get(i, [])) for i in range(len(post))], op.factor))
        for algo in ("Hopcroft-Karp", "Hungarian", "qr"):
            run.count("algo:" + algo)
            try:
                ttno = TTNO(tree, ops, algo=algo)
            except Exception as e:  # noqa
                run.count("rejected:" + type(e).__name__)
                continue
            enc_nodes = []
            ok = True
            for i, (n, mo) in enumerate(zip(post, ttno.symbolic_ttno)):
                ch = [node_ids[id(c)] for c in n.children]
                mo = np.asarray(mo, dtype=object)
                nout = mo.shape[-1]
                outs = [[] for _ in range(nout)]
                for idx in np.ndindex(*mo.shape):
                    for term in mo[idx]:
                        atoms = list(zip(term.split_symbol, term.dofs))
                        key = node_key(i, atoms)
                        ins = ".".join(str(int(x)) for x in idx[:-1]) if len(idx) > 1 else "-"
                        outs[idx[-1]].append(f"{ins}:{key}:{grat(term.factor)}")
                enc_nodes.append((",".join(map(str, ch)) if ch else "-") + "@" + "|".join(";".join(o) if o else "." for o in outs))
            table = ";".join(",".join(map(str, r)) + ":" + grat(f) for r, f in rows) if rows else "-"
            case = dict(descs=descs2, spec=spec, terms=terms, algo=algo, nnodes=len(post),
                        scale=max([abs(f) for _, f in rows] + [1.0]), nterm=len(rows))
            kind = "tresid" if algo == "qr" else "tcert"
            reqs.append(f"{kind} {table} " + "#".join(enc_nodes))
            meta.append((kind, case))
            run.count(f"nodes={len(post)}")
            run.count("shape=" + spec["shape"])
    replies = common.run_driver("RenoVerif/Driver/C01.lean", reqs)
    distinct = set()
    for (kind, case), req, rep in zip(meta, reqs, replies):
        run.sample(dict(case=dict(spec=case["spec"], algo=case["algo"], nterm=case["nterm"]), request=req[:400], reply=rep), limit=3)
        if kind == "tcert":
            if rep != "true":
                run.violation(f"cert:ttno:{case['algo']}", dict(certificate="RenoVerif.SymTree.checkCert (symbolic_ttno vs input terms)",
                                                                case=case, request=req, reply=rep,
                                                                what="the symbolic TTNO does not expand to the requested sum of products"))
            elif case["nterm"] > 1 and case["nnodes"] > 1:
                distinct.add(req)
        else:
            ok = rep.startswith("wf ")
            val = float(Fraction(rep.split(" ")[1])) ** 0.5 if ok else float("inf")
            tol = 1e-9 * case["scale"] * max(1, case["nterm"])
            if not ok or val > tol:
                run.violation("cert:ttno:qr", dict(certificate="RenoVerif.SymTree.residual (QR variant)", case=case, residual=val,
                                                   tolerance=tol, reply=rep, request=req))
            elif case["nterm"] > 1 and case["nnodes"] > 1:
                distinct.add(req)
    run.cov.update(programs=len(reqs), disagreements_checked=len(reqs), evaluations=len(reqs), distinct_nontrivial=len(distinct),
                   rule="random basis lists (1-5 sets; spin, SHO, electron, multi-electron) x random rooted trees (chain, star, caterpillar, binary, "
                        "bushy, random; 1-3 sets per node; dummy nodes as root/internal/leaf) x random term lists (duplicates, cancelling pairs, constant) "
                        "x 3 algorithms; distinct = distinct accepted certificates with > 1 term and > 1 node")
    try:
        import search_c02
    except ImportError:
        search_c02 = None
        run.cov["search_module"] = "absent"
    if search_c02 is not None:
        ev0, dn0 = run.cov["evaluations"], run.cov["distinct_nontrivial"]
        search_c02.search(run, rng, quick)
        if run.cov.get("evaluations") != ev0:
            run.cov["search_evaluations"] = run.cov["evaluations"]
            run.cov["evaluations"] = ev0 + run.cov["search_evaluations"]
            run.cov["distinct_nontrivial"] = dn0 + run.cov.get("distinct_nontrivial", 0)
    run.assumptions += ["the contraction of a tree is proved in an abstract R-algebra (Props/C02Auto.lean); numeric assembly of node tensors and the identification of that algebra with the dense tensor-product operators are validated by the dense oracle, not proved",
                        "the tn package imports only with the print_tree shim (harness/shims)"]
    return run.finish()


if __name__ == "__main__":
    common.main_wrapper(main)
