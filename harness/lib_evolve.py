"""Shared generators and dense oracles for the evolution properties C09 / C10.

Everything here that serves as an ORACLE is computed with NumPy/SciPy from matrices that are
written down in this file (never from `basis.op_mat` or `Mpo.todense`):
the local matrices of spin-1/2, two-level "electron" and truncated harmonic-oscillator sites and the
Kronecker embedding (site 0 most significant, the order of `Mps.todense()`).
"""
import logging

import numpy as np
import scipy.linalg

logging.disable(logging.CRITICAL)

from renormalizer.model import Model, Op  # noqa: E402
from renormalizer.model import basis as ba  # noqa: E402
from renormalizer.mps import Mps, Mpo, MpDm  # noqa: E402
from renormalizer.utils import (  # noqa: E402
    EvolveConfig, EvolveMethod, CompressConfig, CompressCriteria, Quantity)

EPS = np.finfo(float).eps


# ----------------------------------------------------------------------------- local matrices
def _sho(n):
    b = np.diag(np.sqrt(np.arange(1, n)), k=1)
    return {"I": np.eye(n), "b": b, r"b^\dagger": b.T.copy(), r"b^\dagger b": np.diag(np.arange(n) * 1.0),
            r"b^\dagger+b": b + b.T}


_SPIN = {"I": np.eye(2), "sigma_x": np.array([[0, 1.], [1, 0]]), "sigma_z": np.diag([1., -1.]),
         "sigma_y": np.array([[0, -1j], [1j, 0]]),
         "sigma_+": np.array([[0, 1.], [0, 0]]), "sigma_-": np.array([[0, 0], [1., 0]])}
_ELEC = {"I": np.eye(2), r"a^\dagger": np.array([[0, 0], [1., 0]]), "a": np.array([[0, 1.], [0, 0]]),
         r"a^\dagger a": np.diag([0., 1.])}


class Site:
    """kind in {'spin','elec','sho'}; qn: list of per-level quantum numbers (tuples) ; n levels"""

    def __init__(self, kind, dof, n, qn, omega=1.0):
        self.kind, self.dof, self.n, self.qn, self.omega = kind, dof, n, qn, omega

    def mats(self):
        if self.kind == "spin":
            return _SPIN
        if self.kind == "elec":
            return _ELEC
        return _sho(self.n)

    def basis(self):
        if self.kind == "spin":
            return ba.BasisHalfSpin(self.dof, sigmaqn=[list(q) for q in self.qn])
        if self.kind == "elec":
            return ba.BasisSimpleElectron(self.dof, sigmaqn=[list(q) for q in self.qn])
        b = ba.BasisSHO(self.dof, self.omega, self.n)
        if len(self.qn[0]) != 1:
            b.sigmaqn = np.zeros((self.n, len(self.qn[0])), dtype=int)
        return b


class TinyModel:
    """sites: list[Site]; terms: list of (factor, [(site_idx, symbol), ...]) — one symbol per site"""

    def __init__(self, sites, terms, label=""):
        self.sites, self.terms, self.label = sites, terms, label
        self.dims = [s.n for s in sites]
        self.dim = int(np.prod(self.dims))
        self._model = None

    # ---- dense side (independent of the library)
    def embed(self, ops):
        """ops: dict site_idx -> matrix ; Kronecker product with identities elsewhere"""
        out = np.eye(1)
        for i, s in enumerate(self.sites):
            out = np.kron(out, ops.get(i, np.eye(s.n)))
        return out

    def dense_terms(self, terms=None):
        h = np.zeros((self.dim, self.dim), dtype=complex)
        for f, facs in (self.terms if terms is None else terms):
            h = h + f * self.embed({i: self.sites[i].mats()[sym] for i, sym in facs})
        return h

    def dense_h(self):
        return self.dense_terms()

    def qn_of_states(self):
        """array (dim, qn_size) of total quantum number of each product basis state"""
        qs = len(self.sites[0].qn[0])
        tot = np.zeros([1, qs], dtype=int)
        for s in self.sites:
            q = np.array(s.qn, dtype=int).reshape(s.n, qs)
            tot = (tot[:, None, :] + q[None, :, :]).reshape(-1, qs)
        return tot

    def sector_mask(self, qntot):
        q = self.qn_of_states()
        return np.all(q == np.array(qntot).reshape(1, -1), axis=1)

    # ---- library side
    def _simple_qn(self, i, sym):
        """quantum-number change of a simple symbol on site i, from OUR matrix and the level labels"""
        site = self.sites[i]
        m = site.mats()[sym]
        q = np.array(site.qn, dtype=int).reshape(site.n, -1)
        r, c = np.nonzero(m)
        d = {tuple(q[a] - q[b]) for a, b in zip(r, c)}
        assert len(d) == 1, (sym, d)
        return np.array(d.pop(), dtype=int)

    def ops(self, terms=None):
        res = []
        for f, facs in (self.terms if terms is None else terms):
            syms, dofs, qns = [], [], []
            for i, sym in facs:
                for simple in sym.split(" "):
                    syms.append(simple)
                    dofs.append(self.sites[i].dof)
                    qns.append(self._simple_qn(i, simple))
            res.append(Op(" ".join(syms), dofs, f, qn=qns))
        return res

    def model(self):
        if self._model is None:
            self._model = Model([s.basis() for s in self.sites], self.ops())
        return self._model

    def mpo(self, offset=0.0, terms=None):
        if terms is None:
            return Mpo(self.model(), offset=Quantity(offset))
        return Mpo(self.model(), terms=self.ops(terms), offset=Quantity(offset))

    def describe(self):
        return dict(label=self.label, sites=[(s.kind, str(s.dof), s.n, [list(q) for q in s.qn], s.omega) for s in self.sites],
                    terms=[(complex(f).real, complex(f).imag, [(i, s) for i, s in facs]) for f, facs in self.terms])


# ----------------------------------------------------------------------------- model generators
def _r(rng, lo=0.3, hi=1.0):
    return float(np.round(rng.uniform(lo, hi) * rng.choice([-1, 1]), 3))


def gen_spin_model(rng, n=None, conserve=False):
    """random spin-1/2 chain with long-range terms.  conserve=True: U(1) (XXZ-like, qn = number of
    'down' levels), else no symmetry (all qn zero; X, Z, XX, ZZ, YY terms)"""
    n = n or int(rng.integers(3, 5))
    qn = [(0,), (1,)] if conserve else [(0,), (0,)]
    sites = [Site("spin", f"s{i}", 2, qn) for i in range(n)]
    terms = []
    pairs = [(i, j) for i in range(n) for j in range(i + 1, n)]
    rng.shuffle(pairs)
    keep = pairs[: max(n - 1, int(rng.integers(n - 1, len(pairs) + 1)))]
    # make sure the chain is connected by nearest neighbours
    for i in range(n - 1):
        if (i, i + 1) not in keep:
            keep.append((i, i + 1))
    for (i, j) in keep:
        if conserve:
            c = _r(rng)
            terms.append((c, [(i, "sigma_+"), (j, "sigma_-")]))
            terms.append((c, [(i, "sigma_-"), (j, "sigma_+")]))
            if rng.random() < 0.6:
                terms.append((_r(rng), [(i, "sigma_z"), (j, "sigma_z")]))
        else:
            kind = rng.choice(["xx", "zz", "yy", "xz"])
            if kind == "xx":
                terms.append((_r(rng), [(i, "sigma_x"), (j, "sigma_x")]))
            elif kind == "zz":
                terms.append((_r(rng), [(i, "sigma_z"), (j, "sigma_z")]))
            elif kind == "yy":
                # complex local matrices: complex factor (real factor raises UFuncTypeError, DESIGN D12)
                terms.append((complex(_r(rng)), [(i, "sigma_y"), (j, "sigma_y")]))
            else:
                c = _r(rng)
                terms.append((c, [(i, "sigma_x"), (j, "sigma_z")]))
    for i in range(n):
        if rng.random() < 0.8:
            terms.append((_r(rng), [(i, "sigma_z")]))
        if not conserve and rng.random() < 0.6:
            terms.append((_r(rng), [(i, "sigma_x")]))
    return TinyModel(sites, terms, "spin-u1" if conserve else "spin")


def gen_eph_model(rng, nmol=None, two_qn=False, nmode=None):
    """electron(2-level)+oscillator chain: sum J (a†_i a_j + h.c.) + eps a†a + w b†b + g a†a (b†+b)
    two_qn: electrons alternate between quantum numbers (1,0) and (0,1); hopping only within a
    species, density-density interaction between species.  3-5 sites in total."""
    if nmol is None:
        nmol = 3 if two_qn else int(rng.integers(2, 4))
    if nmode is None:
        nmode = 1 if nmol >= 3 else int(rng.integers(1, 3))
    with_mode = set(rng.choice(nmol, size=min(nmode, nmol), replace=False).tolist())
    sites, terms = [], []
    e_idx = []
    qs = 2 if two_qn else 1
    zero = (0,) * qs
    for m in range(nmol):
        if two_qn:
            q1 = (1, 0) if m % 2 == 0 else (0, 1)
        else:
            q1 = (1,)
        e_idx.append(len(sites))
        sites.append(Site("elec", f"e{m}", 2, [zero, q1]))
        if m in with_mode:
            nb = int(rng.integers(2, 4))
            w = float(np.round(rng.uniform(0.5, 1.5), 3))
            vi = len(sites)
            sites.append(Site("sho", f"v{m}", nb, [zero] * nb, omega=w))
            terms.append((w, [(vi, r"b^\dagger b")]))
            terms.append((_r(rng, 0.2, 0.8), [(e_idx[-1], r"a^\dagger a"), (vi, r"b^\dagger+b")]))
    for a in range(nmol):
        terms.append((_r(rng, 0.1, 1.0), [(e_idx[a], r"a^\dagger a")]))
        for b in range(a + 1, nmol):
            if two_qn and (a - b) % 2 != 0:
                # density-density interaction between species
                terms.append((_r(rng, 0.2, 0.8), [(e_idx[a], r"a^\dagger a"), (e_idx[b], r"a^\dagger a")]))
                continue
            if b == a + 1 or two_qn or rng.random() < 0.5:
                c = _r(rng, 0.3, 1.0)
                terms.append((c, [(e_idx[a], r"a^\dagger"), (e_idx[b], "a")]))
                terms.append((c, [(e_idx[a], "a"), (e_idx[b], r"a^\dagger")]))
    return TinyModel(sites, terms, "eph-2qn" if two_qn else "eph")


def gen_model(rng, quick=True, kinds=("spin", "spin-u1", "eph", "eph-2qn")):
    k = str(rng.choice(list(kinds)))
    if k == "spin":
        return gen_spin_model(rng, conserve=False)
    if k == "spin-u1":
        return gen_spin_model(rng, conserve=True)
    if k == "eph":
        return gen_eph_model(rng)
    return gen_eph_model(rng, two_qn=True)


# ----------------------------------------------------------------------------- state generators
def exact_bond_dims(tm, qntot=None):
    dims = tm.dims
    n = len(dims)
    out = [1]
    for i in range(1, n):
        out.append(int(min(np.prod(dims[:i]), np.prod(dims[i:]))))
    out.append(1)
    return out


def seed_legacy(rng):
    """`Mps.random` uses the global NumPy state: seed it from our rng so runs are deterministic"""
    np.random.seed(int(rng.integers(0, 2 ** 31 - 1)))


def pick_qntot(tm, rng):
    """a total quantum number with a non-trivial sector: one of the (up to) three largest sectors
    that are not the completely filled / completely empty ones, chosen at random"""
    q = tm.qn_of_states()
    uniq, cnt = np.unique(q, axis=0, return_counts=True)
    order = sorted(range(len(uniq)), key=lambda i: (-int(cnt[i]), int(np.sum(uniq[i])), tuple(uniq[i])))
    good = [uniq[i] for i in order if cnt[i] >= 3 and (np.all(uniq[i] >= 1) or uniq.shape[1] == 1 and uniq[i][0] >= 1 or np.all(uniq == 0))][:3]
    if not good:
        good = [uniq[order[0]]]
    k = int(rng.integers(0, len(good)))
    return np.array(good[k], dtype=int)


def random_mps(tm, rng, qntot, m, tries=6):
    """normalised random Mps in the sector (retries around FloatingPointError, DESIGN D15)"""
    for _ in range(tries):
        seed_legacy(rng)
        try:
            with np.errstate(all="raise"):
                mps = Mps.random(tm.model(), np.array(qntot), m, percent=1.0)
            v = mps.todense()
            if np.all(np.isfinite(v)) and np.linalg.norm(v) > 1e-8:
                return mps
        except (FloatingPointError, ZeroDivisionError):
            continue
    return None


def full_rank_mps(tm, rng, qntot, cplx=False, tries=4, spread=True):
    """random state of the sector held with exact (not over-complete) bonds and full numerical rank
    in every quantum-number block that the dynamics can reach: a sum of random MPS, pushed through a
    short accurate evolution (so that blocks which `Mps.random` leaves empty get populated),
    canonicalised and compressed losslessly.  The library is used here only to MAKE an input; the
    oracle works on the dense vector of whatever comes out."""
    big = int(max(exact_bond_dims(tm)))
    for _ in range(tries):
        parts = []
        for k in range(3 if cplx else 2):
            p = random_mps(tm, rng, qntot, big)
            if p is None:
                break
            parts.append(p)
        else:
            acc = parts[0]
            acc = acc.add(parts[1].scale(float(rng.uniform(0.4, 1.0))))
            if cplx:
                acc = acc.to_complex().add(parts[2].scale(1j * float(rng.uniform(0.4, 1.0))))
            acc.compress_config = CompressConfig(CompressCriteria.threshold, threshold=1e-12)
            acc = acc.canonicalise().compress()
            if spread:
                nh = opnorm(tm.dense_h())
                mpo = tm.mpo()
                acc.evolve_config = EvolveConfig(EvolveMethod.prop_and_compress_tdrk, rk_solver="Fehlberg5")
                if cplx:
                    for _i in range(3):
                        acc = acc.evolve(mpo, 0.3 / nh)
                elif not np.iscomplexobj(np.asarray(mpo[0].array)) and not any(np.iscomplexobj(np.asarray(t.array)) for t in mpo):
                    # real MPO: imaginary-time Taylor steps keep the state real
                    acc.evolve_config = EvolveConfig(EvolveMethod.prop_and_compress, guess_dt=-0.1j)
                    for _i in range(3):
                        acc = acc.evolve(mpo, -0.3j / nh)
                    assert not any(np.iscomplexobj(np.asarray(t.array)) for t in acc)
                # complex MPO (sigma_y terms; only in models without quantum numbers, where
                # `Mps.random` is generic already): no spreading for real states
                acc = acc.canonicalise().compress()
            acc.normalize("mps_only")
            acc.coeff = 1
            return acc
    return None


def dense_state(mp):
    """dense amplitudes including the scalar coefficient (Mps -> vector, MpDm -> matrix)"""
    return np.asarray(mp.todense()) * mp.coeff


def set_cfg(mp, evolve=None, m=None, criteria="fixed", threshold=1e-13):
    if evolve is not None:
        mp.evolve_config = evolve
    if m is not None:
        if criteria == "fixed":
            mp.compress_config = CompressConfig(CompressCriteria.fixed, max_bonddim=int(m))
        elif criteria == "both":
            mp.compress_config = CompressConfig(CompressCriteria.both, threshold=threshold, max_bonddim=int(m))
        else:
            mp.compress_config = CompressConfig(CompressCriteria.threshold, threshold=threshold)
    return mp


def opnorm(h):
    return float(np.linalg.norm(h, 2))


def expm_apply(h, t, v):
    """exp(-i h t) v by eigen-decomposition free scipy expm (h dense, t may be complex)"""
    return scipy.linalg.expm(-1j * t * h) @ v


def tolist(a):
    a = np.asarray(a)
    if np.iscomplexobj(a):
        return dict(re=a.real.tolist(), im=a.imag.tolist())
    return a.tolist()


# ----------------------------------------------------------------------------- Holstein models (C10)
class HolsteinTiny:
    """A small `HolsteinModel` together with dense matrices written down independently:
    H = sum_ij J_ij a†_i a_j + sum_i (elocalex_i + lambda_i) a†_i a_i + sum_in w_in (b†b + 1/2)
        - sum_in w_in^{3/2} d_in / sqrt2 * a†_i a_i (b† + b)          (lambda_i = sum_n w^2 d^2 / 2)
    mols: list of dict(elocalex, modes=[(omega, dis, nbas), ...]);  scheme 1..4"""

    def __init__(self, mols, jmat, scheme):
        from renormalizer.model import Phonon, Mol, HolsteinModel
        self.mols, self.jmat, self.scheme = mols, np.array(jmat, dtype=float), scheme
        mol_list = []
        for m in mols:
            phs = [Phonon.simple_phonon(Quantity(w), Quantity(d), nb) for (w, d, nb) in m["modes"]]
            mol_list.append(Mol(Quantity(m["elocalex"]), phs))
        self.model = HolsteinModel(mol_list, self.jmat, scheme)
        nmol = len(mols)
        # site layout: list of ("e", imol) / ("E",) / ("v", imol, imode)
        lay = []
        if scheme < 4:
            for i, m in enumerate(mols):
                lay.append(("e", i))
                for k in range(len(m["modes"])):
                    lay.append(("v", i, k))
        else:
            nleft = nmol // 2
            for i, m in enumerate(mols):
                if i == nleft:
                    lay.append(("E",))
                for k in range(len(m["modes"])):
                    lay.append(("v", i, k))
            if nleft == nmol:
                lay.append(("E",))
        self.layout = lay
        self.dims = []
        for s in lay:
            if s[0] == "e":
                self.dims.append(2)
            elif s[0] == "E":
                self.dims.append(nmol + 1)
            else:
                self.dims.append(mols[s[1]]["modes"][s[2]][2])
        self.dim = int(np.prod(self.dims))
        self.nmol = nmol

    def embed(self, ops):
        out = np.eye(1)
        for i, d in enumerate(self.dims):
            out = np.kron(out, ops.get(i, np.eye(d)))
        return out

    def _e_op(self, i, j):
        """dict site->matrix for a†_i a_j"""
        if self.scheme < 4:
            si, sj = self.layout.index(("e", i)), self.layout.index(("e", j))
            if i == j:
                return {si: _ELEC[r"a^\dagger a"]}
            return {si: _ELEC[r"a^\dagger"], sj: _ELEC["a"]}
        s = self.layout.index(("E",))
        m = np.zeros((self.nmol + 1, self.nmol + 1))
        m[i + 1, j + 1] = 1.0
        return {s: m}

    def number_e(self, i):
        return self.embed(self._e_op(i, i))

    def number_v(self, i, k):
        s = self.layout.index(("v", i, k))
        return self.embed({s: _sho(self.dims[s])[r"b^\dagger b"]})

    def nex(self):
        return sum(self.number_e(i) for i in range(self.nmol))

    def sector(self, n):
        return np.isclose(np.diag(self.nex()).real, n)

    def dense_h(self):
        h = np.zeros((self.dim, self.dim))
        for i, m in enumerate(self.mols):
            lam = sum(0.5 * w * w * d * d for (w, d, nb) in m["modes"])
            h = h + (m["elocalex"] + lam) * self.number_e(i)
            for j in range(self.nmol):
                if i != j and self.jmat[i, j] != 0:
                    h = h + self.jmat[i, j] * self.embed(self._e_op(i, j))
            for k, (w, d, nb) in enumerate(m["modes"]):
                s = self.layout.index(("v", i, k))
                sm = _sho(nb)
                h = h + w * self.embed({s: sm[r"b^\dagger b"] + 0.5 * np.eye(nb)})
                ops = dict(self._e_op(i, i))
                ops[s] = sm[r"b^\dagger+b"]
                h = h + (-(w ** 1.5) * d / np.sqrt(2.0)) * self.embed(ops)
        return h

    def dense_hloc(self, space):
        """the purely local vibrational Hamiltonian of `Mpo.exact_propagator` (its docstring):
        GS: sum w b†b ; EX: sum w b†b - w^{3/2} d/sqrt2 (b†+b).  No zero-point energy, identity on electrons"""
        h = np.zeros((self.dim, self.dim))
        for i, m in enumerate(self.mols):
            for k, (w, d, nb) in enumerate(m["modes"]):
                s = self.layout.index(("v", i, k))
                sm = _sho(nb)
                loc = w * sm[r"b^\dagger b"]
                if space == "EX":
                    loc = loc + (-(w ** 1.5) * d / np.sqrt(2.0)) * sm[r"b^\dagger+b"]
                h = h + self.embed({s: loc})
        return h

    def describe(self):
        return dict(mols=self.mols, jmat=self.jmat.tolist(), scheme=self.scheme, dims=self.dims)


def gen_holstein(rng, nmol=None, scheme=None, max_dim=40, coincide=None):
    for _ in range(50):
        n = nmol or int(rng.integers(1, 3))
        mols = []
        for i in range(n):
            nm = 1 if n == 2 else int(rng.integers(1, 3))
            modes = [(float(np.round(rng.uniform(0.5, 1.5), 3)), float(np.round(rng.uniform(0.3, 1.2) * rng.choice([-1, 1]), 3)),
                      int(rng.integers(2, 4))) for _ in range(nm)]
            mols.append(dict(elocalex=float(np.round(rng.uniform(0.0, 1.0), 3)), modes=modes))
        # coincidences: modes sharing frequency, size and |displacement| (same or mirrored direction) with an earlier mode
        allm = [(i, k) for i, m in enumerate(mols) for k in range(len(m["modes"]))]
        if len(allm) > 1 and rng.random() < (0.5 if coincide is None else coincide):
            i0, k0 = allm[0]
            w0, d0, nb0 = mols[i0]["modes"][k0]
            for (i, k) in allm[1:]:
                if rng.random() < (0.7 if coincide is None else 1.0):
                    mols[i]["modes"][k] = (w0, float(d0 * rng.choice([-1, -1, 1])), nb0)
        j = np.zeros((n, n))
        for a in range(n):
            for b in range(a + 1, n):
                j[a, b] = j[b, a] = float(np.round(rng.uniform(0.3, 1.0) * rng.choice([-1, 1]), 3))
        sch = scheme or int(rng.choice([1, 2, 3, 4]))
        ht = HolsteinTiny(mols, j, sch)
        if ht.dim <= max_dim:
            return ht
    return ht
