"""C14 — saved states reload identically; result dumps survive a crash.
L1: Lean protocol model, dump_crash_safe for every initial directory / step count / crash instant.
L2: the REAL TdMpsJob.dump_dict is run in forked children that die (os._exit) before every
    file-system-mutating audit event and in the middle of np.savez; the directory left behind is
    classified and the whole (step, directory) trace must equal the model's runTrace exactly.
L3: same enumeration judged by the property itself + round-trip search (search_c14)."""
import os
import shutil
import sys
import tempfile
import zipfile

import numpy as np

import common
from common import Run, Infra

JOB = "job"
NKEYS = 3


def classify(path):
    """a | p | c<step>: complete = loadable npz holding every expected key"""
    if not os.path.exists(path):
        return "a"
    try:
        with np.load(path, allow_pickle=True) as z:
            keys = set(z.files)
            if not {"step", "a", "probe", "z"} <= keys:
                return "p"
            step = int(z["step"])
            _ = z["a"], z["z"]
        return f"c{step}"
    except Exception:
        return "p"


def dir_state(d):
    f = os.path.join(d, JOB + ".npz")
    return classify(f) + "/" + classify(f + ".bak") + "/" + classify(f + ".tmp.npz")


def prepare(d, f, b, t="a"):
    """initial directory: a / p / c<j> for F, B and the temporary file T"""
    os.makedirs(d, exist_ok=True)
    for kind, path in ((f, os.path.join(d, JOB + ".npz")), (b, os.path.join(d, JOB + ".npz.bak")),
                       (t, os.path.join(d, JOB + ".npz.tmp.npz"))):
        if kind == "a":
            continue
        tmp = path + ".prep.npz"
        np.savez(tmp, step=np.array(int(kind[1:]) if kind[0] == "c" else 0), a=np.arange(5.0),
                 probe=np.array([1.0]), z=np.ones(3))
        data = open(tmp, "rb").read()
        os.remove(tmp)
        with open(path, "wb") as fh:
            fh.write(data if kind[0] == "c" else data[: len(data) // 2])


class _Probe:
    """pickled in the middle of np.savez: lets the child die there"""
    hook = None

    def __reduce__(self):
        if _Probe.hook is not None:
            _Probe.hook()
        return (float, (1.0,))


def child(dirpath, nsteps, crash_event, crash_savez_step, count_file):
    """runs in a forked child; never returns"""
    from renormalizer.utils.tdmps import TdMpsJob
    fpath = os.path.realpath(os.path.join(dirpath, JOB + ".npz"))
    bpath = fpath + ".bak"
    tpath = fpath + ".tmp.npz"
    state = dict(n=0, log=[])

    def relevant(p):
        try:
            p = os.path.realpath(os.fspath(p))
        except TypeError:
            return False
        return p in (fpath, bpath, tpath)

    def hook(event, args):
        hit = False
        if event in ("os.remove", "os.rmdir") and relevant(args[0]):
            hit = True
        elif event == "os.rename" and (relevant(args[0]) or relevant(args[1])):
            hit = True
        elif event == "open" and args[0] is not None and isinstance(args[0], (str, bytes, os.PathLike)) and relevant(args[0]):
            mode = args[1] or ""
            flags = args[2] or 0
            if any(c in mode for c in "wxa+") or (flags & (os.O_WRONLY | os.O_RDWR | os.O_CREAT | os.O_TRUNC)):
                hit = True
        elif event in ("shutil.move", "shutil.copyfile", "os.truncate", "os.link", "os.symlink"):
            hit = any(relevant(a) for a in args if isinstance(a, (str, bytes, os.PathLike)))
        if hit:
            state["log"].append(event)
            if state["n"] == crash_event:
                os._exit(17)
            state["n"] += 1

    class Job(TdMpsJob):
        def init_mps(self):
            return "mps0"

        def process_mps(self, mps):
            pass

        def evolve_single_step(self, dt):
            return "mps"

        def get_dump_dict(self):
            k = len(self.evolve_times) - 1

            def in_savez():
                if crash_savez_step == k:
                    os._exit(18)
            _Probe.hook = in_savez
            pr = np.empty(1, dtype=object)
            pr[0] = _Probe()
            return dict(step=np.array(k), a=np.arange(2000.0) + k, probe=pr, z=np.ones(3))

    sys.addaudithook(hook)
    try:
        job = Job(dump_dir=dirpath, job_name=JOB)
        job.evolve(evolve_dt=1.0, nsteps=nsteps)
        with open(count_file, "w") as fh:
            fh.write(" ".join(state["log"]))
        os._exit(0)
    except BaseException as e:  # noqa
        with open(count_file, "w") as fh:
            fh.write("EXC " + repr(e))
        os._exit(3)


def run_child(dirpath, nsteps, crash_event, crash_savez_step, count_file):
    sys.stdout.flush()
    sys.stderr.flush()
    pid = os.fork()
    if pid == 0:
        try:
            devnull = os.open(os.devnull, os.O_WRONLY)
            os.dup2(devnull, 1)
            os.dup2(devnull, 2)
            child(dirpath, nsteps, crash_event, crash_savez_step, count_file)
        finally:
            os._exit(4)
    _, status = os.waitpid(pid, 0)
    return os.waitstatus_to_exitcode(status)


def observe_run(base, f0, b0, nsteps, t0="a"):
    """returns (observed list of 'k:F/B', event log) for a run of nsteps dumps from (f0,b0);
    built by killing a fresh run before every mutating event and inside every savez"""
    cf = os.path.join(base, "count.txt")
    d = os.path.join(base, "ref")
    prepare(d, f0, b0, t0)
    rc = run_child(d, nsteps, -1, -1, cf)
    log = open(cf).read() if os.path.exists(cf) else ""
    if rc != 0:
        return None, f"reference run failed rc={rc} {log}"
    final_ref = dir_state(d)
    shutil.rmtree(d)
    events = log.split()
    observed = []   # (global position key, state)
    # states before each event
    before = []
    for i in range(len(events)):
        d = os.path.join(base, f"e{i}")
        prepare(d, f0, b0, t0)
        rc = run_child(d, nsteps, i, -1, cf)
        if rc != 17:
            return None, f"crash before event {i} not reached rc={rc}"
        before.append(dir_state(d))
        shutil.rmtree(d)
    inside = {}
    for k in range(1, nsteps + 1):
        d = os.path.join(base, f"s{k}")
        prepare(d, f0, b0, t0)
        rc = run_child(d, nsteps, -1, k, cf)
        if rc != 18:
            return None, f"crash inside savez of step {k} not reached rc={rc}"
        inside[k] = dir_state(d)
        shutil.rmtree(d)
    # stitch: events in order; an 'open' event of step k is followed by the inside-savez state
    seq = []
    k = 0
    for ev, st in zip(events, before):
        seq.append(("before:" + ev, st))
        if ev == "open":
            k += 1
            seq.append(("inside-savez", inside.get(k, "?")))
    seq.append(("final", final_ref))
    return seq, events


def main():
    run = Run("C14", level="proof")
    quick = run.tier != "thorough"
    rng = np.random.default_rng(run.seed)
    l1 = run.l1(["RenoVerif/Props/C14.lean"])
    if not l1["build_ok"]:
        raise Infra("hand-written Lean library failed to build/audit: " + str(l1.get("bad")) + l1.get("log", "")[-800:])

    import renormalizer.utils.tdmps  # noqa  (import before fork)
    kinds_f = ["a", "p", "c7"]
    kinds_b = ["a", "p", "c6"]
    nsteps = 2 if quick else 4
    reqs, cases = [], []
    for f0 in kinds_f:
        for b0 in kinds_b:
            for t0 in ("a", "p"):
                reqs.append(f"run {nsteps} 1 {f0 if f0 != 'p' else 'p0'} {b0 if b0 != 'p' else 'p0'} {t0 if t0 != 'p' else 'p0'}")
                cases.append((f0, b0, t0))
    replies = common.run_driver("RenoVerif/Driver/C14.lean", reqs)

    def canon(tok):   # drop step of partial files: p<k> -> p
        k, st = tok.split(":")
        return "/".join("p" if x.startswith("p") else x for x in st.split("/"))

    ncrash = 0
    ntraces = 0
    with tempfile.TemporaryDirectory(prefix="c14_") as base:
        for (f0, b0, t0), rep in zip(cases, replies):
            model = rep.split()
            seq, events = observe_run(base, f0, b0, nsteps, t0)
            ntraces += 1
            if seq is None:
                run.violation("corr:trace-unobservable", dict(correspondence="fault-injection harness could not drive dump_dict",
                                                              initial=[f0, b0, t0], detail=events), no_input=True)
                continue
            ncrash += len(seq)
            # model runTrace lists, per dump k, d :: states after each op; consecutive dumps repeat the
            # boundary state (final of k = initial of k+1): collapse that duplicate for comparison.
            msteps = [int(t.split(":")[0]) for t in model]
            mstates = [canon(t) for t in model]
            mseq = []
            for i, (k, s) in enumerate(zip(msteps, mstates)):
                if i > 0 and msteps[i - 1] != k:
                    continue   # initial state of dump k duplicates final state of dump k-1
                mseq.append((k, s))
            oseq = [s for _, s in seq]
            run.count(f"init={f0}/{b0}/{t0}")
            run.sample(dict(initial=[f0, b0, t0], steps=nsteps, fs_events=events, observed=oseq, model=[s for _, s in mseq]), limit=3)
            # property oracle on the observed states (L3), at full strength.  (a) if the directory held a complete result (F or its backup) when the job started, or a dump has been
            # completed, every visible state must hold a complete RESULT file (F or B; the temporary file does not count);
            # (b) once done >= 1 that file must be of step >= done of THIS job (inside the dump of step done+1 that is
            # "the previous step", afterwards "the current step").  Files of the OLD job carry the markers 6, 7.
            done = 0        # highest step of THIS job seen complete in a result file so far (protocol independent)
            bad = None
            had_complete = f0.startswith("c") or b0.startswith("c")
            for (tag, st) in seq:
                fb = st.split("/")[:2]
                complete = [int(x[1:]) for x in fb if x.startswith("c")]
                mine = [x for x in complete if x <= nsteps]
                if bad is None and (had_complete or done >= 1) and not complete:
                    bad = dict(initial=[f0, b0, t0], at=tag, directory=st, completed_dumps=done, trace=seq,
                               what="no complete loadable result file left (the one present before this dump started was destroyed)")
                if bad is None and done >= 1 and not any(x >= done for x in mine):
                    bad = dict(initial=[f0, b0, t0], at=tag, directory=st, completed_dumps=done,
                               trace=seq, what="no complete loadable result file of the current or previous step")
                done = max([done] + mine)
            if bad is not None:
                run.violation("crash:no-complete-file", bad)
            if oseq != [s for _, s in mseq]:
                run.violation("corr:trace", dict(correspondence="RenoVerif.Dump.runTrace vs observed crash states of the real dump_dict",
                                                 initial=[f0, b0, t0], steps=nsteps, fs_events=events, observed=seq, model=mseq),
                              no_input=(bad is None))
    run.cov.update(programs=ntraces, disagreements_checked=ntraces, crash_points=ncrash, exhaustive=True,
                   evaluations=ncrash, distinct_nontrivial=ncrash,
                   rule=f"18 initial directories (F,B in absent/partial/complete, temporary file absent/partial) x {nsteps} dumps of a real TdMpsJob x every crash instant "
                        "(process killed with os._exit before each file-system-mutating audit event on the result/backup file and in the middle "
                        "of np.savez); every crash point is distinct")
    # round-trip + independent fault-injection search
    try:
        import search_c14
    except ImportError:
        search_c14 = None
        run.cov["search_module"] = "absent"
    if search_c14 is not None:
        ev0, dn0 = run.cov.get("evaluations", 0), run.cov.get("distinct_nontrivial", 0)
        search_c14.search(run, rng, quick)
        run.cov["evaluations"] = run.cov.get("evaluations", 0) + (ev0 if run.cov.get("evaluations") != ev0 else 0)
    run.assumptions += ["file system: os.remove/os.rename atomic, a killed np.savez leaves a non-loadable or key-incomplete archive",
                        "crash = process death (os._exit) — no Python finally blocks run",
                        "sys.audit events os.remove/os.rename/open(write) are the only ways the code mutates the two files"]
    return run.finish()


if __name__ == "__main__":
    common.main_wrapper(main)
