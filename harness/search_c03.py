"""C03 failing-input search -- state and operator arithmetic agrees with dense linear algebra in
any gauge.

Oracle.  Every operand is generated directly as QN-consistent tensors (lib_chain.random_chain) or by
the implementation (Mps.random, Mpo(model, terms)); its dense value ``E = dense_chain * coeff`` is
computed *before* the operand is put through a random gauge history executed by the implementation
(canonicalise / partial canonicalise / lossless compress / ensure_left/right_canonical /
move_qnidx to any site / to_right flipped).  For an operation ``r = f(a, b)`` the oracle is
``f_dense(E_a, E_b)`` with NumPy; it is compared with

  (1) ``dense_state(r)`` (own einsum of r's tensors times r.coeff), tolerance 1e-9 * scale, and
  (2) ``dense_state`` after a copy of ``r`` was canonicalised to the right, to the left, and
      compressed without truncation by the implementation (for operators additionally: applied to
      a fresh random state, the product then canonicalised) -- "remains correct when subsequently
      canonicalised or compressed".

Scalars (dot, angle, norm, mp_norm, distance) are compared with the dense value.  Conventions
taken from the code and NOT reported: ``dot``/``angle``/``mp_norm`` are tensor-level (exclude
``coeff``; no complex conjugation in ``dot``); ``Mps.distance`` of two states with *exactly equal*
coeff c returns the tensor-level distance (library callers divide it by mp_norm), so both
``|a-b|`` and ``|c||a-b|`` are accepted there.

Signature = ``<operation>:<input class>:<failure class>``.  The failure class is found by
diagnosis of the result object: ``dense`` (amplitudes wrong at once), ``qntot`` (attribute differs
from the sector the dense object lives in), ``labels`` (tensor weight outside the blocks allowed
by qn/qnidx/qntot, recomputed independently), else ``post-<variant>``.  A violation is only
recorded when (1) or (2) fails -- inconsistent labels alone are not reported here (C06).
Defects of the pinned tree (ee24c78) re-found here, each under its own stable signature (all four
repaired by fix: commits in /repo; the signatures fire again when the repair is reverted):
  D1  add:centres-differ:labels                        (add/sub of any kind, centres differ)
  D2  conj_trans:charged-op:qntot
  D9  add/distance:coeffs-close-unequal:fold-skipped   (coefficients differing by 8e-6 relative)
  new add:one-site:boundary-bond                       (add on a one-site chain stacked the tensors)
Failures of operand preparation by the implementation are reported as
``history:<kind>:<ops>:object-changed`` / ``<scenario>:operand-preparation:unexpected-<Exception>``.
"""
import time

import numpy as np

import lib_chain as lc
from renormalizer.mps import Mps, Mpo, MpDm

RTOL = 1e-9          # dense comparison, relative to the norm scale of the operands
STOL = 1e-10         # scalar results, relative to the product of norms
SIG_D1 = "add:centres-differ:labels"
SIG_D2 = "conj_trans:charged-op:qntot"
SIG_D9 = "add/distance:coeffs-close-unequal:fold-skipped"
CLOSE_EPS = 8e-6     # relative difference of "close" coefficients (np.allclose says equal)
SIG_ONESITE = "add:one-site:boundary-bond"
# composed signature -> stable name of the defect behind it (sub goes through add)
GLOBAL_MAP = {
    "add:coeffs-close-unequal:dense": SIG_D9, "sub:coeffs-close-unequal:dense": SIG_D9,
    "distance:coeffs-close-unequal:value": SIG_D9,
    "add:centres-differ:labels": SIG_D1, "sub:centres-differ:labels": SIG_D1,
    "conj_trans:charged-op:qntot": SIG_D2,
    "sub:one-site:boundary-bond": SIG_ONESITE,
}


class Ctx:
    def __init__(self, run, rng, quick):
        self.run, self.rng, self.quick = run, rng, quick
        self.evals = 0
        self.distinct = set()
        self.t0 = time.time()
        self.wall = 50.0 if quick else 540.0

    def out_of_time(self):
        if time.time() - self.t0 > self.wall:
            self.run.count("budget-stop")
            return True
        return False

    def tally(self, key, nontrivial):
        self.evals += 1
        if nontrivial:
            self.distinct.add(key)


def nrm(x):
    return float(np.linalg.norm(np.asarray(x).ravel()))


def _c(z):
    z = complex(z)
    return [z.real, z.imag]


# --------------------------------------------------------------------------------------------
def draw_coeffs(rng):
    """coefficient pair and its class"""
    r = int(rng.integers(7))
    mag = float(rng.choice([0.5, 1.0, 1.0, 2.0, 3.0]))
    if r == 0:
        return 1.0, 1.0, "unit"
    if r == 1:
        return mag, mag, "equal"
    if r == 2:
        return mag, mag * (1.0 + CLOSE_EPS), "close"
    if r == 3:
        return mag, -0.75 * mag, "diff"
    if r == 4:
        c1 = mag * np.exp(1j * float(rng.uniform(0.3, 2.5)))
        return complex(c1), complex(c1), "equal"
    if r == 5:
        return complex(mag * np.exp(0.7j)), complex(0.3 - 1.1j), "diff"
    return mag, complex(0.4 + 0.9j), "diff"


def gauge(ctx, mp, E, label):
    """Put ``mp`` through a random history by the implementation; verify the object is unchanged.
    Returns (history, ok)."""
    n = len(mp)
    h = lc.random_history(ctx.rng, n)
    for op in h:
        ctx.run.count("hist:" + op[0])
    if not h:
        ctx.run.count("hist:fresh")
    snap = lc.dump_chain(mp)
    try:
        lc.apply_history(mp, h)
        err = nrm(lc.dense_state(mp) - E)
        ok = err <= RTOL * max(nrm(E), 1e-300)
        what = f"err={err:.3e}"
    except Exception as e:  # noqa: BLE001 -- any exception of a gauge op on a valid object
        ok, what = False, f"{type(e).__name__}: {e}"
    if not ok:
        kinds = "+".join(sorted({op[0] for op in h}))
        ctx.run.violation(f"history:{lc.kind_of(mp)}:{kinds}:object-changed",
                          dict(operand=snap, history=h, observed=what, role=label))
    return h, ok


def post_variants(kind, n):
    v = []
    if n >= 2:
        v += [("cano", "R"), ("cano", "L")]
    v += [("compress", "R"), ("compress", "L")]
    return v


def run_variant(mp, var):
    if var[0] == "cano":
        lc.cano(mp, var[1])
    elif len(mp) >= 2:
        lc.lossless_compress(mp, var[1])
    else:
        lc.prep(mp, var[1])
        mp.compress(temp_m_trunc=lc.LOSSLESS_M)
    return mp


def diagnose(r, E, default):
    kind = lc.kind_of(r)
    try:
        sup = lc.sector_support(E, r.model, kind)
        if len(sup) == 1 and tuple(int(x) for x in np.atleast_1d(r.qntot)) != next(iter(sup)):
            return "qntot"
        if lc.check_labels(r, 1e-10):
            return "labels"
    except Exception:  # noqa: BLE001
        return "labels"
    return default


def check_object(ctx, op, cls_dense, cls_post, r, E, scale, replay, probe=None, sig_map=None):
    """Direct and post-processing comparison of result ``r`` against dense ``E``.
    ``probe``: for operator results, (state, E_state) to which ``r`` is applied before a final
    canonicalisation.  ``sig_map`` maps composed signatures to the stable names of known defects.
    Returns 'ok' | 'zero' | 'bad'."""
    run = ctx.run
    sig_map = dict(GLOBAL_MAP, **(sig_map or {}))

    def report(sig, extra):
        sig = sig_map.get(sig, sig)
        rep = dict(replay)
        rep.update(extra)
        rep["result"] = lc.labels_json(r) if hasattr(r, "qn") and r.qn is not None else None
        rep["result_bond_dims"] = [int(x) for x in r.bond_dims]
        run.violation(sig, rep)

    bd = [int(x) for x in r.bond_dims]
    if bd[0] != 1 or bd[-1] != 1:
        icls = "one-site" if len(r) == 1 else cls_dense
        report(f"{op}:{icls}:boundary-bond", dict(observed=f"bond dims {bd}"))
        return "bad"
    try:
        obs = lc.dense_state(r)
    except ValueError as e:
        report(f"{op}:{cls_dense}:malformed", dict(observed=str(e)))
        return "bad"
    if obs.shape != np.shape(E):
        report(f"{op}:{cls_dense}:shape", dict(observed_shape=list(obs.shape)))
        return "bad"
    err = nrm(obs - E)
    if not err <= RTOL * scale:
        report(f"{op}:{cls_dense}:dense", dict(err=err, scale=scale, expected_head=[_c(x) for x in np.ravel(E)[:6]],
                                                observed_head=[_c(x) for x in np.ravel(obs)[:6]]))
        return "bad"
    if nrm(E) < 1e-6 * scale:
        run.count("zero-result")
        return "zero"
    kind, n = lc.kind_of(r), len(r)
    for var in post_variants(kind, n):
        c = r.copy()
        try:
            run_variant(c, var)
            e2 = nrm(lc.dense_state(c) - E)
            bad = not e2 <= RTOL * scale
            what = f"err={e2:.3e}"
        except Exception as e:  # noqa: BLE001
            bad, what = True, f"{type(e).__name__}: {e}"
        if bad:
            f = diagnose(r, E, f"post-{var[0]}")
            report(f"{op}:{cls_post}:{f}", dict(variant=list(var), observed=what, scale=scale))
            return "bad"
    if probe is not None:
        psi, Epsi = probe
        Eprod = E @ Epsi
        sc = max(nrm(E) * nrm(Epsi), 1e-300)
        if nrm(Eprod) > 1e-6 * sc:
            try:
                p = r.apply(psi)
                e1 = nrm(lc.dense_state(p) - Eprod)
                bad, what = (not e1 <= RTOL * sc), f"apply err={e1:.3e}"
                if not bad and len(p) >= 2:
                    lc.cano(p, "RL"[int(ctx.rng.integers(2))])
                    e2 = nrm(lc.dense_state(p) - Eprod)
                    bad, what = (not e2 <= RTOL * sc), f"apply+cano err={e2:.3e}"
            except Exception as e:  # noqa: BLE001
                bad, what = True, f"apply+cano {type(e).__name__}: {e}"
            if bad:
                f = diagnose(r, E, "post-apply-cano")
                report(f"{op}:{cls_post}:{f}", dict(variant=["apply", "cano"], observed=what,
                                                     probe=lc.dump_chain(psi)))
                return "bad"
        else:
            run.count("probe-annihilated")
    return "ok"


def check_scalar(ctx, op, cls, obs, exp, tol, replay, sig_map=None, alt=None):
    sig_map = dict(GLOBAL_MAP, **(sig_map or {}))
    good = abs(obs - exp) <= tol or (alt is not None and abs(obs - alt) <= tol)
    if not good:
        sig = sig_map.get(f"{op}:{cls}:value", f"{op}:{cls}:value")
        rep = dict(replay)
        rep.update(expected=_c(exp), observed=_c(obs), tol=tol)
        ctx.run.violation(sig, rep)
        return False
    return True


def clean(r, E):
    """result may be reused as an operand: labels consistent and qntot = sector of the dense object"""
    try:
        sup = lc.sector_support(E, r.model, lc.kind_of(r))
        return sup == {tuple(int(x) for x in np.atleast_1d(r.qntot))} and not lc.check_labels(r, 1e-10)
    except Exception:  # noqa: BLE001
        return False


def centre_class(a, b):
    return "centres-differ" if a.qnidx != b.qnidx else "same-centre"


def guarded(ctx, op, cls, fn, replay, sig_map=None):
    """Run an operation of the implementation; an exception on valid input is a violation."""
    try:
        return fn(), True
    except Exception as e:  # noqa: BLE001
        sig = f"{op}:{cls}:{type(e).__name__}"
        sig = dict(GLOBAL_MAP, **(sig_map or {})).get(sig, sig)
        rep = dict(replay)
        rep["observed"] = f"{type(e).__name__}: {e}"
        ctx.run.violation(sig, rep)
        return None, False


# --------------------------------------------------------------------------------------------
def draw_model(ctx, nmax):
    rng = ctx.rng
    n = int(rng.integers(1, nmax + 1))
    if rng.random() < 0.12:
        n = 1
    q = 2 if rng.random() < 0.3 else 1
    spec = lc.random_model_spec(rng, n, q, max_d=3 if n >= 5 else 4, neutral=rng.random() < 0.08)
    ctx.run.count(f"n={n}")
    ctx.run.count(f"qn_size={q}")
    return lc.build_model(spec), spec


def draw_state(ctx, model, kind, qntot, coeff, force_centre=None):
    rng = ctx.rng
    cplx = bool(rng.random() < 0.4)
    if kind == "mps" and rng.random() < 0.15:
        m = lc.library_mps(rng, model, qntot if qntot is not None else lc.feasible_sectors(model)[0], m_max=int(rng.integers(2, 6)))
        if m is not None:
            m.coeff = coeff
            ctx.run.count("operand:Mps.random")
            return m
        ctx.run.count("rejected:Mps.random-failed(D15)")
    mp = lc.random_chain(rng, model, kind, qntot=qntot, cplx=cplx, coeff=coeff, centre=force_centre,
                         max_bond=4 if kind == "mps" else 3)
    if mp is not None:
        ctx.run.count(f"operand:direct-{kind}" + ("-complex" if cplx else "-real"))
    return mp


def pair_same_sector(ctx, model, kind):
    """two objects of one sector with coefficient classes, each through its own history"""
    rng = ctx.rng
    c1, c2, ccls = draw_coeffs(rng) if kind != "mpo" else (1.0, 1.0, "unit")
    a = draw_state(ctx, model, kind, None, c1)
    if a is None:
        return None
    T = tuple(int(x) for x in a.qntot)
    b = draw_state(ctx, model, kind, T, c2)
    if b is None:
        return None
    Ea, Eb = lc.dense_state(a), lc.dense_state(b)
    ha, ok1 = gauge(ctx, a, Ea, "a")
    hb, ok2 = gauge(ctx, b, Eb, "b")
    if not (ok1 and ok2):
        return None
    n = len(a)
    if n >= 2 and a.qnidx == b.qnidx and rng.random() < 0.6:
        # force different centres (the situation tests never produce)
        k = int((b.qnidx + 1 + rng.integers(n - 1)) % n)
        b.move_qnidx(k)
        hb = hb + [["move", k]]
    return a, b, Ea, Eb, ha, hb, ccls


def scen_binary(ctx, model, kind):
    """add, sub, dot, angle, distance, norm on a pair of same-sector objects"""
    run, rng = ctx.run, ctx.rng
    pr = pair_same_sector(ctx, model, kind)
    if pr is None:
        run.count("rejected:no-pair")
        return
    a, b, Ea, Eb, ha, hb, ccls = pr
    n = len(a)
    scale = max(nrm(Ea) + nrm(Eb), 1e-300)
    cc = centre_class(a, b)
    run.count(f"{kind}:binary:{cc}")
    run.count(f"{kind}:coeffs-{ccls}")
    base = dict(kind=kind, a=lc.dump_chain(a), b=lc.dump_chain(b), history_a=ha, history_b=hb, coeff_class=ccls)
    nontriv = n >= 2 and max(max(a.bond_dims), max(b.bond_dims)) >= 2 and np.count_nonzero(np.abs(Ea) > 1e-12) >= 2
    key0 = (kind, n, model.qn_size, cc, ccls, tuple(a.bond_dims), tuple(b.bond_dims), a.is_complex, b.is_complex,
            str(ha), str(hb))
    cls_dense = "coeffs-close-unequal" if ccls == "close" else cc
    smap = {f"add:coeffs-close-unequal:dense": SIG_D9, f"sub:coeffs-close-unequal:dense": SIG_D9,
            f"distance:coeffs-close-unequal:value": SIG_D9,
            "add:centres-differ:labels": SIG_D1, "sub:centres-differ:labels": SIG_D1}
    ca, cb = lc.coeff_of(a), lc.coeff_of(b)
    Ta, Tb = lc.dense_chain(a), lc.dense_chain(b)   # tensor-level values (coeff excluded)

    # --- scalars first (distance/add of Mps fold the coefficients into the operands in place)
    rep = dict(base, op="dot")
    v, ok = guarded(ctx, "dot", cc, lambda: a.dot(b), rep)
    if ok:
        check_scalar(ctx, "dot", cc, complex(v), complex(np.sum(Ta * Tb)), STOL * max(nrm(Ta) * nrm(Tb), 1e-300), rep)
    ctx.tally(key0 + ("dot",), nontriv)
    rep = dict(base, op="angle")
    v, ok = guarded(ctx, "angle", cc, lambda: a.angle(b), rep)
    if ok:
        check_scalar(ctx, "angle", cc, complex(v), complex(abs(np.sum(Ta.conj() * Tb))), STOL * max(nrm(Ta) * nrm(Tb), 1e-300), rep)
    ctx.tally(key0 + ("angle",), nontriv)
    for nm, obj, E_, T_ in (("a", a, Ea, Ta), ("b", b, Eb, Tb)):
        rep = dict(base, op="norm", which=nm)
        v, ok = guarded(ctx, "mp_norm", kind, lambda: obj.mp_norm, rep)
        if ok:
            check_scalar(ctx, "mp_norm", kind, complex(v), complex(nrm(T_)), 1e-9 * max(nrm(T_), 1e-300), rep)
        if kind != "mpo":
            v, ok = guarded(ctx, "norm", kind, lambda: obj.norm, rep)
            if ok:
                check_scalar(ctx, "norm", kind, complex(v), complex(nrm(E_)), 1e-9 * max(nrm(E_), 1e-300), rep)
        ctx.tally(key0 + ("norm", nm), nontriv)

    # distance: compare squares (the implementation takes sqrt of a difference of O(1) numbers)
    if rng.random() < 0.5 and ccls == "close":
        # the sharpest D9 probe: same state in another gauge, coefficients differing by 8e-6
        b2 = a.copy()
        if n >= 2:
            lc.cano(b2, "RL"[int(rng.integers(2))])
        b2.coeff = cb
        Eb2 = lc.dense_state(b2)
        bb, Ebb, tag = b2, Eb2, "same-state-regauged"
    else:
        bb, Ebb, tag = b.copy(), Eb, "pair"
    aa = a.copy()
    rep = dict(base, op="distance", variant=tag, b_used=lc.dump_chain(bb))
    v, ok = guarded(ctx, "distance", cls_dense, lambda: aa.distance(bb), rep, smap)
    if ok:
        exp2 = nrm(Ea - Ebb) ** 2
        alt2 = None
        if kind != "mpo" and ca == lc.coeff_of(bb):
            alt2 = nrm(Ta - lc.dense_chain(bb)) ** 2   # common coefficient factored out (library convention)
        tol2 = 1e-10 * max(nrm(Ea) ** 2 + nrm(Ebb) ** 2, 1e-300)
        if alt2 is not None:
            tol2 = max(tol2, 1e-10 * (nrm(Ta) ** 2 + nrm(Tb) ** 2))
        check_scalar(ctx, "distance", cls_dense, complex(float(v) ** 2), complex(exp2), tol2,
                     dict(rep, compared="squared distance"), smap, alt=None if alt2 is None else complex(alt2))
    ctx.tally(key0 + ("distance", tag), nontriv)
    # distance of NEARBY operands (b' = a + eps*b, eps = 3e-5 .. 3e-4): the squared distance is 1e-9 .. 1e-7 of the squared
    # norms, far above the rounding of the difference of O(1) numbers (1e-15) -- it may not be reported as zero
    eps = float(rng.choice([3e-5, 1e-4, 3e-4]))
    try:
        near = a.copy().add(b.copy().scale(eps))
        En = lc.dense_state(near)
    except Exception:  # noqa -- add / scale are judged by their own scenarios
        near = None
    if near is not None and nrm(En - Ea) > 0.3 * eps * nrm(Eb) > 0:
        rep = dict(base, op="distance", variant="nearby-operands", eps=eps)
        v, ok = guarded(ctx, "distance", cls_dense + ":nearby", lambda: a.copy().distance(near), rep, smap)
        if ok:
            exp2 = nrm(Ea - En) ** 2
            alt2 = None
            if kind != "mpo" and lc.coeff_of(a) == lc.coeff_of(near):
                alt2 = nrm(lc.dense_chain(a) - lc.dense_chain(near)) ** 2    # common coefficient factored out (library convention)
            check_scalar(ctx, "distance:nearby-operands", cls_dense, complex(float(v) ** 2), complex(exp2),
                         0.05 * min(exp2, alt2 if alt2 is not None else exp2) + 1e-13 * (nrm(Ea) ** 2 + nrm(En) ** 2),
                         dict(rep, compared="squared distance"), smap, alt=None if alt2 is None else complex(alt2))
        run.count("distance:nearby-operands")

    # --- add / sub
    for op in ("add", "sub"):
        x, y = a.copy(), b.copy()
        rep = dict(base, op=op)
        if op == "add":
            r, ok = guarded(ctx, op, cc, lambda: x.add(y) if rng.random() < 0.5 else x + y, rep, smap)
            E = Ea + Eb
        else:
            r, ok = guarded(ctx, op, cc, lambda: x - y, rep, smap)
            E = Ea - Eb
        ctx.tally(key0 + (op,), nontriv)
        if not ok:
            continue
        if type(r) is not type(a):
            run.violation(f"{op}:{kind}:result-type", dict(rep, observed=str(type(r))))
            continue
        probe = None
        if kind == "mpo":
            probe = make_probe(ctx, model)
        check_object(ctx, op, cls_dense, cc, r, E, scale, rep, probe=probe, sig_map=smap)


def make_probe(ctx, model):
    psi = lc.random_chain(ctx.rng, model, "mps", cplx=bool(ctx.rng.integers(2)), p_dead=0.0, p_dup=0.0)
    if psi is None:
        return None
    return psi, lc.dense_state(psi)


def scen_unary(ctx, model, kind):
    """scale (real / complex / via *), conj, normalize, copy on one object in a random gauge"""
    run, rng = ctx.run, ctx.rng
    c1, _, _ = draw_coeffs(rng) if kind != "mpo" else (1.0, 1.0, "unit")
    a = draw_state(ctx, model, kind, None, c1)
    if a is None:
        run.count("rejected:no-state")
        return
    Ea = lc.dense_state(a)
    ha, ok = gauge(ctx, a, Ea, "a")
    if not ok:
        return
    n = len(a)
    scale = max(nrm(Ea), 1e-300)
    base = dict(kind=kind, a=lc.dump_chain(a), history_a=ha)
    nontriv = n >= 2 and max(a.bond_dims) >= 2 and np.count_nonzero(np.abs(Ea) > 1e-12) >= 2
    key0 = (kind, n, model.qn_size, tuple(a.bond_dims), a.is_complex, str(ha), a.qnidx)
    cls = f"{kind}:centre-{'end' if a.qnidx in (0, n - 1) else 'inner'}"
    probe = make_probe(ctx, model) if kind == "mpo" else None

    vals = [float(rng.choice([-2.0, -1.0, 0.5, 3.0])), complex(0.6, -1.3), complex(2.0, 0.0)]
    val = vals[int(rng.integers(3))]
    how = int(rng.integers(3))
    rep = dict(base, op="scale", value=_c(val), how=["scale", "mul", "rmul"][how])
    x = a.copy()
    r, ok = guarded(ctx, "scale", cls, lambda: x.scale(val) if how == 0 else (x * val if how == 1 else val * x), rep)
    ctx.tally(key0 + ("scale", str(val), how), nontriv)
    if ok:
        check_object(ctx, "scale", cls, cls, r, Ea * val, scale * abs(val), rep, probe=probe)
        # the input of a non-inplace scale must still represent the same object
        if nrm(lc.dense_state(x) - Ea) > RTOL * scale:
            run.violation(f"scale:{cls}:input-changed", rep)

    rep = dict(base, op="conj")
    x = a.copy()
    r, ok = guarded(ctx, "conj", cls, lambda: x.conj(), rep)
    ctx.tally(key0 + ("conj",), nontriv)
    if ok:
        pr = None
        if probe is not None:
            pr = probe
        check_object(ctx, "conj", cls, cls, r, Ea.conj(), scale, rep, probe=pr)
        # a scalar multiple of the conjugate taken in place: the conjugate becomes v * conj(a), the object it was made from
        # keeps its value (the conjugate of REAL data may share its buffers with the original)
        v2 = [2.5, -0.5, 3.0][int(rng.integers(3))]
        rep2 = dict(base, op="conj-then-scale-in-place", value=v2)
        r2, ok2 = guarded(ctx, "conj+scale-inplace", cls, lambda: r.scale(v2, inplace=True), rep2)
        if ok2:
            check_object(ctx, "conj+scale-inplace", cls, cls, r2 if r2 is not None else r, v2 * Ea.conj(), scale * abs(v2), rep2, probe=pr)
            if nrm(lc.dense_state(x) - Ea) > RTOL * scale:
                run.violation(f"conj+scale-inplace:{cls}:original-changed", rep2)
            run.count("conj-then-scale-in-place")

    if kind == "mps" or kind == "mpdm":
        knd = ["mps_only", "mps_and_coeff", "mps_norm_to_coeff"][int(rng.integers(3))]
        rep = dict(base, op="normalize", how=knd)
        x = a.copy()
        r, ok = guarded(ctx, "normalize", cls, lambda: x.normalize(knd), rep)
        ctx.tally(key0 + ("normalize", knd), nontriv)
        if ok:
            T = lc.dense_chain(a)
            c = lc.coeff_of(a)
            if knd == "mps_only":
                E = c * T / nrm(T)
            elif knd == "mps_and_coeff":
                E = c / abs(c) * T / nrm(T)
            else:
                E = c * T
            check_object(ctx, "normalize", cls, cls, r, E, max(nrm(E), 1e-300), rep)


def draw_operator(ctx, model, charge=None, want_charged=None):
    """Operator by the implementation (Mpo(model, terms)) or directly from random QN-consistent
    tensors, put through a gauge history.  Returns (mpo, E, charge, how, history) or None."""
    rng, run = ctx.rng, ctx.run
    cplx = bool(rng.random() < 0.35)
    O, how = None, None
    if rng.random() < 0.6:
        for _ in range(6):
            try:
                O, terms, ch = lc.library_mpo(rng, model, nterms=int(rng.integers(1, 5)), charge=charge, cplx=cplx)
            except Exception as e:  # noqa: BLE001 -- construction is C01's business
                run.count(f"rejected:Mpo-construction-{type(e).__name__}")
                O = None
                continue
            if O is None:
                break
            if want_charged and not np.any(np.array(ch)):
                O = None
                continue
            how = "library"
            break
    if O is None:
        sectors = lc.feasible_sectors(model, "mpo")
        if charge is None:
            cand = [s for s in sectors if any(s)] if want_charged else sectors
            if not cand:
                return None
            charge = cand[int(rng.integers(len(cand)))]
        O = lc.random_chain(rng, model, "mpo", qntot=tuple(charge), cplx=cplx, max_bond=3)
        how = "direct"
        if O is None:
            return None
    E = lc.dense_state(O)
    if nrm(E) < 1e-12:
        run.count("rejected:zero-operator")
        return None
    ch = tuple(int(x) for x in np.atleast_1d(O.qntot))
    sup = lc.sector_support(E, model, "mpo")
    if sup != {ch}:
        # the operand itself is mislabelled (C01/C06 business) -- do not use it here
        run.count("rejected:operator-sector-mismatch")
        return None
    h, ok = gauge(ctx, O, E, "operator")
    if not ok:
        return None
    run.count(f"operator:{how}:" + ("charged" if any(ch) else "neutral"))
    return O, E, ch, how, h


def scen_operator(ctx, model):
    """O.apply(psi), O @ psi, contract(svd), O.apply(O2), O.apply(rho), rho.apply(O), conj_trans"""
    run, rng = ctx.run, ctx.rng
    n = model.nsite
    dr = draw_operator(ctx, model, want_charged=rng.random() < 0.5)
    if dr is None:
        run.count("rejected:no-operator")
        return
    O, EO, ch, how, hO = dr
    chcls = "charged-op" if any(ch) else "neutral-op"
    c1, _, _ = draw_coeffs(rng)
    psi = draw_state(ctx, model, "mps", None, c1)
    if psi is None:
        return
    # prefer a state that the operator does not annihilate
    for _ in range(4):
        if nrm(EO @ lc.dense_state(psi)) > 1e-8 * nrm(EO) * nrm(lc.dense_state(psi)):
            break
        alt = draw_state(ctx, model, "mps", None, c1)
        if alt is not None:
            psi = alt
    Epsi = lc.dense_state(psi)
    hpsi, ok = gauge(ctx, psi, Epsi, "psi")
    if not ok:
        return
    base = dict(operator=lc.dump_chain(O), operator_how=how, history_operator=hO, charge=list(ch),
                psi=lc.dump_chain(psi), history_psi=hpsi)
    cc = centre_class(O, psi)
    cls = f"{chcls}:{cc}"
    run.count(f"apply:{cls}")
    nontriv = n >= 2 and max(O.bond_dims) >= 2 and max(psi.bond_dims) >= 2
    key0 = (n, model.qn_size, ch, how, tuple(O.bond_dims), tuple(psi.bond_dims), O.qnidx, psi.qnidx, str(hO), str(hpsi),
            O.is_complex, psi.is_complex)
    sc = max(nrm(EO) * nrm(Epsi), 1e-300)

    # apply / @ / contract
    which = int(rng.integers(3))
    if which == 2 and not (n >= 2 and nrm(EO @ Epsi) > 1e-6 * sc):
        # contract = apply + canonicalise + compress: needs a non-vanishing product and >= 2 sites (D14); the operand's centre
        # may sit anywhere (any gauge)
        run.count("rejected:contract-precondition")
        which = int(rng.integers(2))
    opname = ["apply", "matmul", "contract-svd"][which]
    rep = dict(base, op=opname)
    x = psi.copy()
    r, ok = guarded(ctx, "apply", cls, lambda: O.apply(x) if which == 0 else (O @ x if which == 1 else O.contract(x)), rep)
    ctx.tally(key0 + (opname,), nontriv)
    if ok:
        if not isinstance(r, Mps) or isinstance(r, MpDm):
            run.violation(f"apply:{cls}:result-type", dict(rep, observed=str(type(r))))
        else:
            check_object(ctx, "apply", cls, cls, r, EO @ Epsi, sc, rep)
        if nrm(lc.dense_state(x) - Epsi) > RTOL * max(nrm(Epsi), 1e-300):
            run.violation(f"apply:{cls}:input-changed", rep)

    # operator adjoint, then use it on a state (D2)
    rep = dict(base, op="conj_trans")
    h, ok = guarded(ctx, "conj_trans", chcls, lambda: O.conj_trans(), rep)
    ctx.tally(key0 + ("conj_trans",), nontriv)
    if ok:
        probe = None
        Eh = EO.conj().T
        for _ in range(6):
            pr = make_probe(ctx, model)
            if pr is not None and nrm(Eh @ pr[1]) > 1e-6 * nrm(Eh) * nrm(pr[1]):
                probe = pr
                break
        if probe is None:
            run.count("conj_trans:no-probe")
        smap = {"conj_trans:charged-op:qntot": SIG_D2}
        check_object(ctx, "conj_trans", chcls, chcls, h, Eh, max(nrm(EO), 1e-300), rep, probe=probe, sig_map=smap)

    # operator times operator
    dr2 = draw_operator(ctx, model)
    if dr2 is not None:
        O2, EO2, ch2, how2, hO2 = dr2
        rep = dict(base, op="apply-mpo", operator2=lc.dump_chain(O2), history_operator2=hO2)
        cls2 = f"{chcls}:{centre_class(O, O2)}"
        r, ok = guarded(ctx, "apply-mpo", cls2, lambda: O.apply(O2) if rng.random() < 0.5 else O @ O2, rep)
        ctx.tally(key0 + ("apply-mpo", tuple(O2.bond_dims), O2.qnidx, ch2), nontriv)
        if ok:
            probe = None
            for _ in range(4):
                pr = make_probe(ctx, model)
                if pr is not None and nrm(EO @ EO2 @ pr[1]) > 1e-6 * nrm(EO @ EO2) * nrm(pr[1]):
                    probe = pr
                    break
            check_object(ctx, "apply-mpo", cls2, cls2, r, EO @ EO2, max(nrm(EO) * nrm(EO2), 1e-300), rep, probe=probe)

    # density operators: O rho and rho O
    c1, _, _ = draw_coeffs(rng)
    rho = draw_state(ctx, model, "mpdm", None, c1)
    if rho is not None:
        Erho = lc.dense_state(rho)
        hr, ok = gauge(ctx, rho, Erho, "rho")
        if ok:
            sc2 = max(nrm(EO) * nrm(Erho), 1e-300)
            rep = dict(base, op="apply-mpdm", rho=lc.dump_chain(rho), history_rho=hr)
            cls3 = f"{chcls}:{centre_class(O, rho)}"
            x = rho.copy()
            r, ok = guarded(ctx, "apply-mpdm", cls3, lambda: O.apply(x), rep)
            ctx.tally(key0 + ("apply-mpdm", tuple(rho.bond_dims), rho.qnidx), nontriv)
            if ok:
                if not isinstance(r, MpDm):
                    run.violation(f"apply-mpdm:{cls3}:result-type", dict(rep, observed=str(type(r))))
                else:
                    check_object(ctx, "apply-mpdm", cls3, cls3, r, EO @ Erho, sc2, rep)
            rep = dict(base, op="mpdm-apply", rho=lc.dump_chain(rho), history_rho=hr)
            x = rho.copy()
            r, ok = guarded(ctx, "mpdm-apply", cls3, lambda: x.apply(O), rep)
            ctx.tally(key0 + ("mpdm-apply", tuple(rho.bond_dims), rho.qnidx), nontriv)
            if ok:
                if not isinstance(r, MpDm):
                    run.violation(f"mpdm-apply:{cls3}:result-type", dict(rep, observed=str(type(r))))
                else:
                    check_object(ctx, "mpdm-apply", cls3, cls3, r, Erho @ EO, sc2, rep)


def scen_operator_pair(ctx, model):
    """add / sub / dot / distance of two operators with the same charge, centres differing"""
    run, rng = ctx.run, ctx.rng
    dr = draw_operator(ctx, model, want_charged=rng.random() < 0.5)
    if dr is None:
        return
    O1, E1, ch, how1, h1 = dr
    dr2 = draw_operator(ctx, model, charge=ch)
    if dr2 is None or dr2[2] != ch:
        run.count("rejected:no-second-operator")
        return
    O2, E2, _, how2, h2 = dr2
    n = model.nsite
    if n >= 2 and O1.qnidx == O2.qnidx and rng.random() < 0.6:
        k = int((O2.qnidx + 1 + rng.integers(n - 1)) % n)
        O2.move_qnidx(k)
        h2 = h2 + [["move", k]]
    cc = centre_class(O1, O2)
    chcls = "charged" if any(ch) else "neutral"
    run.count(f"mpo:binary:{cc}:{chcls}")
    base = dict(kind="mpo", a=lc.dump_chain(O1), b=lc.dump_chain(O2), history_a=h1, history_b=h2, charge=list(ch))
    nontriv = n >= 2 and max(max(O1.bond_dims), max(O2.bond_dims)) >= 2
    key0 = ("mpo", n, model.qn_size, ch, cc, tuple(O1.bond_dims), tuple(O2.bond_dims), str(h1), str(h2), how1, how2)
    smap = {"add:centres-differ:labels": SIG_D1, "sub:centres-differ:labels": SIG_D1}
    scale = max(nrm(E1) + nrm(E2), 1e-300)
    rep = dict(base, op="dot")
    v, ok = guarded(ctx, "dot", "mpo:" + cc, lambda: O1.dot(O2), rep)
    if ok:
        check_scalar(ctx, "dot", "mpo:" + cc, complex(v), complex(np.sum(E1 * E2)), STOL * max(nrm(E1) * nrm(E2), 1e-300), rep)
    rep = dict(base, op="distance")
    v, ok = guarded(ctx, "distance", "mpo:" + cc, lambda: O1.distance(O2), rep)
    if ok:
        check_scalar(ctx, "distance", "mpo:" + cc, complex(float(v) ** 2), complex(nrm(E1 - E2) ** 2),
                     1e-10 * (nrm(E1) ** 2 + nrm(E2) ** 2), dict(rep, compared="squared distance"))
    ctx.tally(key0 + ("scalars",), nontriv)
    for op in ("add", "sub"):
        rep = dict(base, op=op)
        x, y = O1.copy(), O2.copy()
        r, ok = guarded(ctx, op, cc, (lambda: x.add(y)) if op == "add" else (lambda: x - y), rep, smap)
        ctx.tally(key0 + (op,), nontriv)
        if ok:
            E = E1 + E2 if op == "add" else E1 - E2
            probe = None
            for _ in range(4):
                pr = make_probe(ctx, model)
                if pr is not None and nrm(E @ pr[1]) > 1e-6 * max(nrm(E), 1e-300) * nrm(pr[1]):
                    probe = pr
                    break
            check_object(ctx, op, cc, cc, r, E, scale, rep, probe=probe, sig_map=smap)


def scen_program(ctx, model, steps=6):
    """Random sequence of arithmetic operations interleaved with gauge operations on a pool of
    states (several sectors) and operators of one model; every intermediate result is checked."""
    run, rng = ctx.run, ctx.rng
    n = model.nsite
    states = []   # (obj, E)
    ops = []      # (obj, E, charge)
    for _ in range(3):
        c1, _, _ = draw_coeffs(rng)
        s = draw_state(ctx, model, "mps", None, c1)
        if s is not None:
            states.append((s, lc.dense_state(s)))
    for _ in range(2):
        d = draw_operator(ctx, model)
        if d is not None:
            ops.append((d[0], d[1], d[2]))
    if not states:
        return
    smap = {"add:centres-differ:labels": SIG_D1, "sub:centres-differ:labels": SIG_D1,
            "conj_trans:charged-op:qntot": SIG_D2}
    trace = []
    for step in range(steps):
        act = int(rng.integers(7))
        if act in (0, 1):      # add / sub two states of one sector (make a partner if necessary)
            i = int(rng.integers(len(states)))
            a, Ea = states[i]
            T = tuple(int(x) for x in a.qntot)
            partners = [j for j, (s, _) in enumerate(states) if j != i and tuple(int(x) for x in s.qntot) == T]
            if partners and rng.random() < 0.7:
                b, Eb = states[partners[int(rng.integers(len(partners)))]]
            else:
                b = draw_state(ctx, model, "mps", T, draw_coeffs(rng)[0])
                if b is None:
                    continue
                Eb = lc.dense_state(b)
                states.append((b, Eb))
            op = "add" if act == 0 else "sub"
            if abs(lc.coeff_of(a) - lc.coeff_of(b)) > 0 and np.allclose(lc.coeff_of(a), lc.coeff_of(b)):
                continue   # D9 is probed in scen_binary only
            cc = centre_class(a, b)
            rep = dict(op=op, program=trace + [[op, cc]], a=lc.dump_chain(a), b=lc.dump_chain(b))
            x, y = a.copy(), b.copy()
            r, ok = guarded(ctx, op, cc, (lambda: x.add(y)) if op == "add" else (lambda: x - y), rep, smap)
            ctx.tally(("prog", n, step, op, cc, tuple(a.bond_dims), tuple(b.bond_dims), len(trace)), n >= 2)
            if not ok:
                continue
            E = Ea + Eb if op == "add" else Ea - Eb
            st = check_object(ctx, op, cc, cc, r, E, max(nrm(Ea) + nrm(Eb), 1e-300), rep, sig_map=smap)
            trace.append([op, cc, st])
            if st == "ok" and clean(r, E):
                if max(r.bond_dims) > 12 and n >= 2:
                    lc.lossless_compress(r, "RL"[int(rng.integers(2))])
                states.append((r, E))
        elif act == 2 and ops:   # operator on state
            O, EO, ch = ops[int(rng.integers(len(ops)))]
            a, Ea = states[int(rng.integers(len(states)))]
            cls = ("charged-op" if any(ch) else "neutral-op") + ":" + centre_class(O, a)
            rep = dict(op="apply", program=trace + [["apply", cls]], operator=lc.dump_chain(O), psi=lc.dump_chain(a))
            r, ok = guarded(ctx, "apply", cls, lambda: O @ a, rep)
            ctx.tally(("prog", n, step, "apply", cls, tuple(a.bond_dims), tuple(O.bond_dims), len(trace)), n >= 2)
            if not ok:
                continue
            E = EO @ Ea
            st = check_object(ctx, "apply", cls, cls, r, E, max(nrm(EO) * nrm(Ea), 1e-300), rep)
            trace.append(["apply", cls, st])
            if st == "ok" and clean(r, E):
                if max(r.bond_dims) > 12 and n >= 2:
                    lc.lossless_compress(r, "RL"[int(rng.integers(2))])
                states.append((r, E))
        elif act == 3:   # scale / conj of a state
            a, Ea = states[int(rng.integers(len(states)))]
            if rng.random() < 0.5:
                val = [-1.5, complex(0.3, 0.8), 2.0][int(rng.integers(3))]
                rep = dict(op="scale", program=trace + [["scale"]], a=lc.dump_chain(a), value=_c(val))
                r, ok = guarded(ctx, "scale", "mps:program", lambda: a.scale(val), rep)
                E, nm = Ea * val, "scale"
            else:
                rep = dict(op="conj", program=trace + [["conj"]], a=lc.dump_chain(a))
                r, ok = guarded(ctx, "conj", "mps:program", lambda: a.conj(), rep)
                E, nm = Ea.conj(), "conj"
            ctx.tally(("prog", n, step, nm, tuple(a.bond_dims), len(trace)), n >= 2)
            if ok:
                st = check_object(ctx, nm, "mps:program", "mps:program", r, E, max(nrm(E), 1e-300), rep)
                trace.append([nm, st])
                if st == "ok" and clean(r, E):
                    states.append((r, E))
        elif act == 4:   # gauge step on a pooled object (in place)
            pool = states if (rng.random() < 0.7 or not ops) else ops
            j = int(rng.integers(len(pool)))
            obj, E = pool[j][0], pool[j][1]
            h, ok = gauge(ctx, obj, E, "pooled")
            trace.append(["gauge", h])
            ctx.tally(("prog", n, step, "gauge", str(h), tuple(obj.bond_dims), len(trace)), n >= 2)
            if not ok:
                pool.pop(j)
                if not states:
                    return
        elif act == 5 and len(ops) >= 1:   # operator product or adjoint
            O, EO, ch = ops[int(rng.integers(len(ops)))]
            if rng.random() < 0.5:
                O2, EO2, ch2 = ops[int(rng.integers(len(ops)))]
                cls = ("charged-op" if any(ch) else "neutral-op") + ":" + centre_class(O, O2)
                rep = dict(op="apply-mpo", program=trace + [["apply-mpo", cls]], operator=lc.dump_chain(O), operator2=lc.dump_chain(O2))
                r, ok = guarded(ctx, "apply-mpo", cls, lambda: O @ O2, rep)
                ctx.tally(("prog", n, step, "apply-mpo", cls, tuple(O.bond_dims), tuple(O2.bond_dims), len(trace)), n >= 2)
                if ok:
                    E = EO @ EO2
                    if nrm(E) < 1e-9 * nrm(EO) * nrm(EO2):
                        continue
                    st = check_object(ctx, "apply-mpo", cls, cls, r, E, max(nrm(EO) * nrm(EO2), 1e-300), rep,
                                      probe=make_probe(ctx, model))
                    trace.append(["apply-mpo", cls, st])
                    if st == "ok" and max(r.bond_dims) <= 9 and clean(r, E):
                        ops.append((r, E, tuple(int(x) for x in np.array(ch) + np.array(ch2))))
            else:
                chcls = "charged-op" if any(ch) else "neutral-op"
                rep = dict(op="conj_trans", program=trace + [["conj_trans", chcls]], operator=lc.dump_chain(O))
                r, ok = guarded(ctx, "conj_trans", chcls, lambda: O.conj_trans(), rep)
                ctx.tally(("prog", n, step, "conj_trans", chcls, tuple(O.bond_dims), len(trace)), n >= 2)
                if ok:
                    E = EO.conj().T
                    probe = None
                    for _ in range(4):
                        pr = make_probe(ctx, model)
                        if pr is not None and nrm(E @ pr[1]) > 1e-6 * nrm(E) * nrm(pr[1]):
                            probe = pr
                            break
                    st = check_object(ctx, "conj_trans", chcls, chcls, r, E, max(nrm(E), 1e-300), rep, probe=probe, sig_map=smap)
                    trace.append(["conj_trans", chcls, st])
                    if st == "ok" and probe is not None and clean(r, E):
                        ops.append((r, E, tuple(-int(x) for x in ch)))
        elif act == 6 and len(ops) >= 1:   # sum of operators of one charge
            j = int(rng.integers(len(ops)))
            O, EO, ch = ops[j]
            partners = [k for k, (_, _, c2) in enumerate(ops) if c2 == ch]
            O2, EO2, _ = ops[partners[int(rng.integers(len(partners)))]]
            cc = centre_class(O, O2)
            rep = dict(op="add", program=trace + [["add-mpo", cc]], a=lc.dump_chain(O), b=lc.dump_chain(O2))
            x, y = O.copy(), O2.copy()
            r, ok = guarded(ctx, "add", cc, lambda: x.add(y), rep, smap)
            ctx.tally(("prog", n, step, "add-mpo", cc, tuple(O.bond_dims), tuple(O2.bond_dims), len(trace)), n >= 2)
            if ok:
                E = EO + EO2
                st = check_object(ctx, "add", cc, cc, r, E, max(nrm(EO) + nrm(EO2), 1e-300), rep,
                                  probe=make_probe(ctx, model), sig_map=smap)
                trace.append(["add-mpo", cc, st])
                if st == "ok" and max(r.bond_dims) <= 9 and clean(r, E):
                    ops.append((r, E, ch))
        if len(states) > 8:
            states.pop(int(rng.integers(len(states))))
        if len(ops) > 5:
            ops.pop(int(rng.integers(len(ops))))


def safely(ctx, name, spec, fn, *args):
    """An exception escaping a scenario means an operation of the implementation failed at a point
    where only valid-input operand preparation happens (copy, move_qnidx, canonicalise of a
    consistent chain ...).  It is reported, never allowed to abort the search."""
    try:
        fn(*args)
    except Exception as e:  # noqa: BLE001
        import traceback
        tb = traceback.format_exc().strip().splitlines()
        ctx.run.violation(f"{name}:operand-preparation:unexpected-{type(e).__name__}",
                          dict(scenario=name, model=spec, observed=f"{type(e).__name__}: {e}", traceback=tb[-8:]))


# --------------------------------------------------------------------------------------------
def search(run, rng, quick):
    ctx = Ctx(run, rng, quick)
    rounds = 200 if quick else 2400
    nmax = 5 if quick else 6
    for rd in range(rounds):
        if ctx.out_of_time():
            break
        model, spec = draw_model(ctx, nmax)
        if rd < 3:
            run.sample(dict(round=rd, model=spec))
        for kind in ("mps", "mpo" if rd % 2 else "mpdm"):
            if kind == "mpo":
                safely(ctx, "operator-pair", spec, scen_operator_pair, ctx, model)
            else:
                safely(ctx, "binary", spec, scen_binary, ctx, model, kind)
            safely(ctx, "unary", spec, scen_unary, ctx, model, kind)
        safely(ctx, "operator", spec, scen_operator, ctx, model)
        if model.nsite <= 4 or not quick:
            safely(ctx, "program", spec, scen_program, ctx, model, 6 if quick else 10)
    run.cov["evaluations"] = run.cov.get("evaluations", 0) + ctx.evals
    run.cov["distinct_nontrivial"] = len(ctx.distinct)
    run.cov["rule"] = ("one evaluation = one operation of the implementation judged against the dense oracle "
                       "(incl. its post-canonicalise/compress re-checks); distinct = different (operation, chain length, "
                       "qn components, operand bond dimensions, centres, dtypes, coefficient class, gauge histories); "
                       "non-trivial = at least 2 sites, some operand bond >= 2 and (for states) >= 2 non-zero amplitudes")
