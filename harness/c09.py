"""C09 — real-time evolution converges to the exact propagator (partial).
L1: Lean: one explicit RK step = polynomial in the generator with the code's coefficients, for every
    tableau (generated facts: the coefficients are 1/k! up to the advertised order); adaptive
    controller bookkeeping with the rejected-step witness of defect D17.
L2: the REAL general Runge-Kutta scheme at full bond dimension, one fixed step, must equal the
    model polynomial Σ_k d_k (−i·dt·H)^k ψ with d = polyCoeffs from the Lean driver, for every tableau.
L3: dense exp(−iHt) oracle, slopes, solver independence, norm/energy conservation (search_c09)."""
from fractions import Fraction

import numpy as np

import common
import generic_check


def l2_rk_poly(run, rng, quick):
    from renormalizer.model import Model, Op, basis as ba
    from renormalizer.mps import Mps, Mpo
    from renormalizer.utils import EvolveConfig, EvolveMethod, CompressConfig, CompressCriteria
    from renormalizer.utils import rk
    reqs = []
    for m in rk.method_list:
        reqs.append(f"ticoeff {m} 0")
    rep = common.run_driver("RenoVerif/Driver/C19.lean", reqs)
    coeffs = {m: [float(Fraction(x)) for x in r.split()] for m, r in zip(rk.method_list, rep)}
    ns = 3
    basis = [ba.BasisHalfSpin(i) for i in range(ns)]
    terms = [Op("X X", [i, i + 1], 0.8) for i in range(ns - 1)] + [Op("Z", i, 0.5 + 0.1 * i) for i in range(ns)]
    model = Model(basis, terms)
    mpo = Mpo(model)
    H = mpo.todense()
    done = 0
    methods = list(rk.method_list) if not quick else list(rk.method_list)[:10]
    for m in methods:
        mps = Mps.random(model, 0, 4, 1.0).to_complex()
        mps.compress_config = CompressConfig(CompressCriteria.fixed, max_bonddim=8)
        pair = len(rk.RungeKutta(m).order) == 2
        # embedded pairs are only accepted by the adaptive branch: one step, accepted whatever the error estimate
        ec = (EvolveConfig(EvolveMethod.prop_and_compress_tdrk, adaptive=True, guess_dt=0.3, adaptive_rtol=1e6) if pair
              else EvolveConfig(EvolveMethod.prop_and_compress_tdrk, adaptive=False))
        ec.rk_config = rk.RungeKutta(m)
        mps.evolve_config = ec
        psi0 = mps.todense().ravel() * mps.coeff
        dt = 0.3
        new = mps.evolve(mpo, dt, normalize=False)
        psi = new.todense().ravel() * new.coeff
        ref = np.zeros_like(psi0)
        term = psi0.copy()
        for k, d in enumerate(coeffs[m]):
            if k > 0:
                term = (-1j * dt) * (H @ term)
            ref = ref + d * term
        done += 1
        dev = float(np.linalg.norm(psi - ref))
        run.sample(dict(method=m, deviation=dev, poly=coeffs[m]), limit=3)
        if dev > 1e-9:
            run.violation("corr:rk-step-polynomial:" + m,
                          dict(correspondence="RenoVerif.RKStep.rk_step_poly (polyCoeffs = tiCoeff) vs Mps.evolve(prop_and_compress_tdrk) at full bond",
                               method=m, deviation=dev), no_input=True)
    return done


def l2_taylor_poly(run, rng, quick):
    """one fixed step of the Taylor propagate-and-compress scheme at full bond dimension equals the Taylor polynomial
    sum_k (-i dt H)^k / k! psi of the requested order, for orders below, at and above the default (more than five summands)."""
    import math
    from renormalizer.model import Model, Op, basis as ba
    from renormalizer.mps import Mps, Mpo
    from renormalizer.utils import EvolveConfig, EvolveMethod, CompressConfig, CompressCriteria
    ns = 4
    basis = [ba.BasisHalfSpin(i) for i in range(ns)]
    terms = [Op("X X", [i, i + 1], 0.7 + 0.1 * i) for i in range(ns - 1)] + [Op("Z", i, 0.4 - 0.2 * i) for i in range(ns)] + [Op("Y", 1, 0.3)]
    model = Model(basis, terms)
    mpo = Mpo(model)
    H = mpo.todense()
    done = 0
    for order in (1, 2, 3, 4, 5, 6, 7, 9, 11, 12):
        np.random.seed(int(rng.integers(2 ** 31)))
        mps = Mps.random(model, 0, 4, 1.0).to_complex()
        mps.compress_config = CompressConfig(CompressCriteria.fixed, max_bonddim=16)
        mps.evolve_config = EvolveConfig(EvolveMethod.prop_and_compress, adaptive=False, taylor_order=order)
        psi0 = mps.todense().ravel() * mps.coeff
        dt = float(rng.uniform(0.2, 0.6))
        try:
            new = mps.evolve(mpo, dt, normalize=False)
        except Exception as e:  # noqa
            run.violation(f"taylor-step:order{order}:raises:{type(e).__name__}", dict(order=order, dt=dt, error=repr(e)[:200]))
            continue
        psi = new.todense().ravel() * new.coeff
        ref = np.zeros_like(psi0)
        term = psi0.copy()
        for k in range(order + 1):
            if k > 0:
                term = (-1j * dt) * (H @ term)
            ref = ref + term / math.factorial(k)
        done += 1
        dev = float(np.linalg.norm(psi - ref) / np.linalg.norm(ref))
        if dev > 1e-10:
            run.violation(f"taylor-step:order{'<=4' if order <= 4 else '>=5'}:not-the-taylor-polynomial",
                          dict(order=order, dt=dt, relative_deviation=dev, psi0=dict(re=psi0.real.tolist(), im=psi0.imag.tolist()),
                               what="one fixed Taylor P&C step at full bond dimension differs from sum_k (-i dt H)^k/k! psi of the requested order"))
    return done


def l2_controller(run, rng, quick):
    """replay of the adaptive step-size controller: the (dt tried, accepted/final) sequence of the REAL
    adaptive general-RK run, reconstructed from its debug log, against the Lean state machine fed
    with the same step-size factors p"""
    import logging
    import re
    from renormalizer.model import Model, Op, basis as ba
    from renormalizer.mps import Mps, Mpo
    from renormalizer.utils import EvolveConfig, EvolveMethod, CompressConfig, CompressCriteria
    from renormalizer.utils import rk
    import renormalizer.mps.mps as mpsmod
    records = []

    class H(logging.Handler):
        def emit(self, rec):
            records.append(rec.getMessage())
    handler = H()
    handler.setLevel(logging.DEBUG)
    lg = mpsmod.logger
    old_level = lg.level
    old_prop = lg.propagate
    lg.addHandler(handler)
    lg.setLevel(logging.DEBUG)
    lg.propagate = False
    done = 0
    reqs, meta = [], []
    try:
        for _ in range(3 if quick else 12):
            ns = 3
            basis = [ba.BasisHalfSpin(i) for i in range(ns)]
            terms = [Op("X X", [i, i + 1], float(rng.uniform(0.5, 1.5))) for i in range(ns - 1)] + [Op("Z", i, float(rng.uniform(-1, 1))) for i in range(ns)]
            model = Model(basis, terms)
            mpo = Mpo(model)
            mps = Mps.random(model, 0, 4, 1.0).to_complex()
            mps.compress_config = CompressConfig(CompressCriteria.fixed, max_bonddim=8)
            guess = float(rng.choice([5.0, 1.0, 0.3, 0.05]))
            target = float(rng.choice([0.4, 0.25, 0.8]))
            ec = EvolveConfig(EvolveMethod.prop_and_compress_tdrk, adaptive=True, guess_dt=guess, adaptive_rtol=float(rng.choice([1e-6, 1e-4])))
            ec.rk_config = rk.RungeKutta(str(rng.choice(["RKF45", "Cash-Karp45"])))
            mps.evolve_config = ec
            del records[:]
            mps.evolve(mpo, target, normalize=False)
            dts, ps = [], []
            for m in records:
                a = re.match(r"guess_dt: (\S+), try time step size: (\S+)", m)
                if a:
                    dts.append(float(a.group(2)))
                b = re.search(r"enlarge p parameter: (\S+)", m)
                if b:
                    ps.append(float(b.group(1)))
            if not ps or len(ps) != len(dts):
                run.count("controller-log-unparsed")
                continue
            from fractions import Fraction
            reqs.append(f"ctl {common.rat(Fraction(target))} {common.rat(Fraction(guess))} " + ",".join(common.rat(Fraction(x)) for x in ps))
            meta.append(dict(target=target, guess=guess, dts=dts, ps=ps, rejected=sum(1 for x in ps if x < 0.5)))
            run.count("controller:rejections=%d" % meta[-1]["rejected"])
    finally:
        lg.removeHandler(handler)
        lg.setLevel(old_level)
        lg.propagate = old_prop
    if reqs:
        from fractions import Fraction
        reps = common.run_driver("RenoVerif/Driver/C09.lean", reqs)
        for m, req, rep in zip(meta, reqs, reps):
            done += 1
            steps, tail = rep.split(" | ")
            mdts = [float(Fraction(x.split(":")[0])) for x in steps.split(" ")]
            mdone = steps.split(" ")[-1].endswith("true")
            applied = float(Fraction(tail.split(" ")[0]))
            ok = len(mdts) == len(m["dts"]) and all(abs(a - b) <= 1e-10 * max(1.0, abs(b)) for a, b in zip(mdts, m["dts"])) and mdone \
                and abs(applied - m["target"]) <= 1e-10
            run.sample(dict(controller=m, model_dts=mdts, model_applied=applied), limit=4)
            if not ok:
                run.violation("corr:adaptive-controller", dict(correspondence="RenoVerif.RKStep.ctlStepFixed vs the adaptive loop of _evolve_prop_and_compress_tdrk",
                                                               impl=m, model_dts=mdts, model_done=mdone, model_applied=applied), no_input=True)
    return done


def l2_chain_sweep_events(run, rng, quick):
    """exact replay: the sequence of local Krylov propagations (which site / bond, sign and size of the local time step) of the
    REAL chain projector-splitting schemes (_evolve_tdvp_ps, _evolve_tdvp_ps2) against the Lean traversal models of
    Model/TreeSweep on the linear tree rooted at site 0 (first round = forward half sweep, second = its mirror image)."""
    import sys
    from renormalizer.model import Model, Op, basis as ba
    from renormalizer.mps import Mps, Mpo
    from renormalizer.utils import EvolveConfig, EvolveMethod
    import renormalizer.mps.mps as mpsmod
    rec = []
    orig = mpsmod.expm_krylov

    def wrapped(afunc, dt, vstart, *a, **k):
        loc = sys._getframe(1).f_locals
        name = sys._getframe(1).f_code.co_name
        rec.append((name, loc.get("imps"), loc.get("cidx0"), loc.get("cidx1"), loc.get("cidx2"),
                    bool(loc["mps"].to_right) if "mps" in loc else None, complex(dt), int(np.size(vstart))))
        res = orig(afunc, dt, vstart, *a, **k)
        # contract of Props/C09Conserve (`local_step_norm`, `local_step_energy`): the effective operator is Hermitian,
        # and the local propagation by exp(-i tau K) keeps the centre tensor's norm and Rayleigh form
        if name == "_evolve_tdvp_ps":
            v0 = np.asarray(vstart).ravel()
            v1 = np.asarray(res[0]).ravel()
            x = prng.normal(size=v0.size) + 1j * prng.normal(size=v0.size)
            y = prng.normal(size=v0.size) + 1j * prng.normal(size=v0.size)
            ax, ay = np.asarray(afunc(x)).ravel(), np.asarray(afunc(y)).ravel()
            herm = abs(np.vdot(x, ay) - np.conj(np.vdot(y, ax))) / (np.linalg.norm(x) * np.linalg.norm(ay) + 1e-300)
            cons.append(dict(herm=float(herm), n0=float(np.vdot(v0, v0).real), n1=float(np.vdot(v1, v1).real),
                             e0=float(np.vdot(v0, np.asarray(afunc(v0)).ravel()).real),
                             e1=float(np.vdot(v1, np.asarray(afunc(v1)).ravel()).real), scale=float(np.linalg.norm(ax) / np.linalg.norm(x))))
        return res
    cons = []
    prng = np.random.default_rng(int(rng.integers(2 ** 31)))
    mpsmod.expm_krylov = wrapped
    reqs, meta = [], []
    try:
        for _ in range(6 if quick else 60):
            n = int(rng.integers(2, 7))
            basis = [ba.BasisHalfSpin(i) for i in range(n)]
            terms = [Op("sigma_x sigma_x", [i, i + 1], float(rng.uniform(0.3, 1.0))) for i in range(n - 1)] + \
                    [Op("sigma_z", i, float(rng.uniform(-1, 1))) for i in range(n)]
            model = Model(basis, terms)
            mpo = Mpo(model)
            for method, kinds in ((EvolveMethod.tdvp_ps, ("ps1f", "ps1b")), (EvolveMethod.tdvp_ps2, ("ps2f", "ps2b"))):
                np.random.seed(int(rng.integers(2 ** 31)))
                mps = Mps.random(model, 0, 3, percent=1.0)
                mps.evolve_config = EvolveConfig(method)
                tau = 0.02 if rng.random() < 0.5 else -0.03j
                del rec[:]
                del cons[:]
                e_init = float(np.real(mps.expectation(mpo)))
                n_init = float(np.real(mps.conj().dot(mps)))
                try:
                    mps_new = mps.evolve(mpo, tau)
                except Exception as e:  # noqa
                    run.count("chain-sweep-raised:" + type(e).__name__)
                    continue
                if method == EvolveMethod.tdvp_ps:
                    info = dict(nsite=n, tau=str(tau), bond_dims=[int(b) for b in mps.bond_dims], nlocal=len(cons),
                                theorem="RenoVerif.Conserve.sweep_conserves / local_step_norm / local_step_energy")
                    worst_h = max((c["herm"] for c in cons), default=0.0)
                    run.count("conserve:hermiticity-checked", len(cons))
                    if worst_h > 1e-9:
                        run.violation("corr:tdvp_ps:effective-operator-not-hermitian",
                                      dict(info, correspondence="hypothesis K = P^H H P Hermitian of Props/C09Conserve", worst=worst_h), no_input=True)
                    if not np.iscomplex(tau):
                        esc = max(abs(e_init), max((c["scale"] for c in cons), default=1.0) * n_init, 1e-12)
                        # every local step keeps norm and Rayleigh form; consecutive steps re-express the same state
                        seq_n = [n_init] + [v for c in cons for v in (c["n0"], c["n1"])]
                        seq_e = [e_init] + [v for c in cons for v in (c["e0"], c["e1"])]
                        dn = max(abs(v - n_init) for v in seq_n) / n_init
                        de = max(abs(v - e_init) for v in seq_e) / esc
                        e_fin = float(np.real(mps_new.expectation(mpo)))
                        n_fin = float(np.real(mps_new.conj().dot(mps_new)))
                        dn = max(dn, abs(n_fin - n_init) / n_init)
                        de = max(de, abs(e_fin - e_init) / esc)
                        run.count("conserve:real-time-sweeps")
                        if dn > 1e-8 or de > 1e-8:
                            k = next((i for i, (a, b) in enumerate(zip(seq_e, seq_n)) if abs(a - e_init) / esc > 1e-8 or abs(b - n_init) / n_init > 1e-8), None)
                            run.violation("corr:tdvp_ps:local-step-conservation",
                                          dict(info, correspondence="conclusion of sweep_conserves on the recorded local propagations of the real sweep",
                                               norm_drift=dn, energy_drift=de, first_bad_entry=k,
                                               energies=seq_e[:40], norms=seq_n[:40], final=[e_fin, n_fin]), no_input=True)
                events, steps = [], set()
                for (fn, imps, c0, c1, c2, to_right, dt, size) in rec:
                    ratio = dt / (-1j * tau)          # +1/2 forward local step, -1/2 backward local step
                    steps.add(round(abs(ratio), 12))
                    fwd = ratio.real > 0
                    if fn == "_evolve_tdvp_ps":
                        if fwd:
                            events.append(f"k1:{imps}")
                        else:     # bond between imps and its neighbour in sweep direction; named by its lower end (the child)
                            events.append(f"k0:{imps + 1 if to_right else imps}")
                    elif fn == "_evolve_tdvp_ps2":
                        events.append(f"two:{c1}" if fwd else f"one:{c2}")
                    else:
                        events.append("bad:" + fn)
                run.count(f"chain-sweep:{method.name}:n={n}:{'imag' if np.iscomplex(tau) else 'real'}")
                if steps != {0.5}:
                    run.violation(f"corr:chain-sweep-local-time-step:{method.name}",
                                  dict(correspondence="every local propagation of a half sweep runs over dt/2", nsite=n,
                                       local_steps_over_dt=sorted(steps)), no_input=True)
                half = len(events) // 2
                adj = "|".join(str(i + 1) if i + 1 < n else "." for i in range(n))
                for kind, ev in zip(kinds, (events[:half], events[half:])):
                    reqs.append(f"{kind} 0 {adj}")
                    meta.append((kind, ev, dict(nsite=n, method=method.name, all_events=events)))
    finally:
        mpsmod.expm_krylov = orig
    replies = common.run_driver("RenoVerif/Driver/C12.lean", reqs) if reqs else []
    for (kind, ev, info), req, rep in zip(meta, reqs, replies):
        impl = ",".join(ev) if ev else "-"
        run.sample(dict(request=req, model=rep, impl=impl), limit=2)
        if rep != impl:
            run.violation(f"corr:chain-sweep-events:{kind}",
                          dict(correspondence="RenoVerif.TreeSweep traversal (linear tree) vs recorded local propagations of the real chain sweep",
                               info=info, model=rep, impl=impl), no_input=True)
    return len(reqs)


def large_step_ps(run, rng, quick):
    """TDVP-PS with complete bond dimensions is exact for ANY step: one very large real-time step (spectral width * dt / 2 of
    55-80 per half sweep, so that the local Krylov problems need more than 50 Lanczos vectors) against the dense propagator."""
    import scipy.linalg
    from renormalizer.model import Model, Op, basis as ba
    from renormalizer.mps import Mps, Mpo
    from renormalizer.utils import EvolveConfig, EvolveMethod, CompressConfig, CompressCriteria
    done = 0
    for _ in range(1 if quick else 6):
        n = int(rng.integers(7, 9))
        basis = [ba.BasisHalfSpin(i) for i in range(n)]
        terms = [Op("sigma_x sigma_x", [i, i + 1], float(rng.uniform(0.5, 1.0))) for i in range(n - 1)] + \
                [Op("sigma_z sigma_z", [i, i + 2], float(rng.uniform(0.2, 0.6))) for i in range(n - 2)] + \
                [Op("sigma_z", i, float(rng.uniform(-1, 1))) for i in range(n)]
        model = Model(basis, terms)
        mpo = Mpo(model)
        h = np.asarray(mpo.todense())
        w = np.linalg.eigvalsh(h)
        np.random.seed(int(rng.integers(2 ** 31)))
        mps = Mps.random(model, 0, 2 ** (n // 2), percent=1.0).to_complex()
        mps.compress_config = CompressConfig(CompressCriteria.fixed, max_bonddim=2 ** (n // 2))
        for method in (EvolveMethod.tdvp_ps,) + (() if quick else (EvolveMethod.tdvp_ps2,)):
            mps.evolve_config = EvolveConfig(method)
            dt = float(rng.uniform(110, 160)) * 2 / float(w[-1] - w[0])     # each half sweep propagates over dt/2
            psi0 = np.asarray(mps.todense()).ravel() * complex(mps.coeff)
            try:
                out = mps.evolve(mpo, dt)
            except Exception as e:  # noqa
                run.violation(f"large-step:{method.name}:raises:{type(e).__name__}", dict(nsite=n, dt=dt, error=repr(e)[:200]))
                continue
            got = np.asarray(out.todense()).ravel() * complex(out.coeff)
            ref = scipy.linalg.expm(-1j * dt * h) @ psi0
            err = float(np.linalg.norm(got - ref) / np.linalg.norm(ref))
            done += 1
            run.count(f"large-step:{method.name}:n={n}")
            # far outside the moderate range of ||A|| dt the Krylov kernel is specified for (C18): the un-reorthogonalised Lanczos
            # recurrence of the pinned routine reaches 1e-3 here; only gross errors (a wrong propagator) are flagged
            if err > 2e-2:
                run.violation(f"large-step:{method.name}:full-bond:vs-expm",
                              dict(nsite=n, dt=dt, spectral_width=float(w[-1] - w[0]), rel_err=err,
                                   terms=[(t.symbol, list(t.dofs), float(t.factor)) for t in terms],
                                   what="projector splitting at complete bond dimension must reproduce exp(-iHt) for any step size"))
    return done


def vmf_generic_gauge(run, rng, quick):
    """variable-mean-field TDVP (overlap forcing on, the default) at complete bond dimension on a chain of 5-6 sites whose tensors
    are in a GENERIC complex gauge (a complex invertible matrix inserted on every bond; the centre flags say `left sweep from the
    last site`, so the scheme keeps the tensors as they are): the overlap matrices are complex and non-symmetric on every bond.
    The result must be exp(-iHt) psi whatever the gauge."""
    import scipy.linalg
    from renormalizer.model import Model, Op, basis as ba
    from renormalizer.mps import Mps, Mpo
    from renormalizer.utils import EvolveConfig, EvolveMethod, CompressConfig, CompressCriteria
    done = 0
    for _ in range(1 if quick else 5):
        n = int(rng.integers(5, 7))
        basis = [ba.BasisHalfSpin(i) for i in range(n)]
        terms = [Op("sigma_x sigma_x", [i, i + 1], float(rng.uniform(0.5, 1.0))) for i in range(n - 1)] + \
                [Op("sigma_y sigma_y", [i, i + 1], float(rng.uniform(0.2, 0.6))) for i in range(n - 1)] + \
                [Op("sigma_z", i, float(rng.uniform(-1, 1))) for i in range(n)]
        model = Model(basis, terms)
        mpo = Mpo(model)
        h = np.asarray(mpo.todense())
        nh = float(np.linalg.norm(h, 2))
        np.random.seed(int(rng.integers(2 ** 31)))
        M = 2 ** (n // 2)
        mps = Mps.random(model, 0, M, percent=1.0).to_complex()
        mps.canonicalise().canonicalise()      # two QR sweeps: no bond larger than its exact rank (over-complete bonds are a recorded finding)
        mps.ensure_left_canonical()
        for k in range(n - 1):
            d = mps[k].shape[-1]
            G = np.eye(d) + 0.35 * (rng.normal(size=(d, d)) + 1j * rng.normal(size=(d, d)))
            if np.linalg.cond(G) > 30:
                continue
            a, b = np.asarray(mps[k].array), np.asarray(mps[k + 1].array)
            mps[k] = np.tensordot(a, G, axes=([a.ndim - 1], [0]))
            mps[k + 1] = np.tensordot(np.linalg.inv(G), b, axes=([1], [0]))
        mps.compress_config = CompressConfig(CompressCriteria.fixed, max_bonddim=M)
        psi0 = np.asarray(mps.todense()).ravel() * complex(mps.coeff)
        T = 0.5 / nh
        ref = scipy.linalg.expm(-1j * T * h) @ psi0
        for method in (EvolveMethod.tdvp_mu_vmf, EvolveMethod.tdvp_vmf):
            work = mps.copy()
            work.evolve_config = EvolveConfig(method, ivp_rtol=1e-8, ivp_atol=1e-10, force_ovlp=True)
            try:
                out = work.evolve(mpo, T, normalize=False)
            except Exception as e:  # noqa
                run.violation(f"vmf-generic-gauge:{method.name}:raises:{type(e).__name__}", dict(nsite=n, error=repr(e)[:200]))
                continue
            got = np.asarray(out.todense()).ravel() * complex(out.coeff)
            err = float(np.linalg.norm(got - ref) / np.linalg.norm(ref))
            done += 1
            run.count(f"vmf-generic-gauge:{method.name}:n={n}")
            if err > 1e-4:
                run.violation(f"vmf-generic-gauge:{method.name}:vs-expm",
                              dict(nsite=n, T=T, rel_err=err, terms=[(t.symbol, list(t.dofs), float(np.real(t.factor))) for t in terms],
                                   tensors=[dict(re=np.real(np.asarray(t.array)).tolist(), im=np.imag(np.asarray(t.array)).tolist()) for t in mps],
                                   what="VMF with overlap forcing on a generic-gauge complete-bond state must reproduce exp(-iHt) psi"))
    return done


if __name__ == "__main__":
    common.main_wrapper(lambda: generic_check.run_check(
        "C09", "other", ["RenoVerif/Props/C09.lean", "RenoVerif/Props/C12.lean", "RenoVerif/Props/C09Conserve.lean"], [l2_rk_poly, l2_taylor_poly, l2_controller, l2_chain_sweep_events, large_step_ps, vmf_generic_gauge],
        ["error orders of TDVP/P&C schemes, Lanczos/RK45 local solvers, adaptive step-size termination are numerical (measured by slopes)",
         "projector-splitting norm/energy conservation is measured, its algebraic reason (unitary local steps + C04 pushes) is not assembled into one Lean theorem"],
        "ten tableaux x one fixed step of the real general RK scheme at full bond dimension vs the model polynomial",
        explanation="Partial proof: the algebraic skeleton (RK step = polynomial with Taylor coefficients up to the advertised order, for every tableau and "
                    "every linear generator; controller bookkeeping) is proved in Lean and tied to the real scheme at full bond dimension; convergence orders, "
                    "solver independence, split-call consistency, conservation laws and bond limits are decided by the dense oracle search."))
