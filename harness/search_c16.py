"""C16 failing-input search: built-in basis sets (renormalizer/model/basis.py), packaged model builders
(model.py, mol.py, phonon.py) and unit conversion (utils/quantity.py) realise their documented physics.

Oracles (all independent of the library: own ladder matrices, own Pauli tables, adaptive quadrature,
own dense assembly of the documented Hamiltonians):

 A  BasisSHO       every accepted symbol, sizes 1..8, random omega, origin x0 = 0 / != 0, hard-coded and
                   general power formulas.  Reference = the same operators truncated at M = N + 10 levels
                   (b, b^dagger exact ladder matrices, x = sqrt(1/2w)(b+b^dagger) + x0, p = i sqrt(w/2)(b^dagger-b),
                   dx = i p) multiplied in the WRITTEN order and cut back to N levels.
                   - one-symbol matrices, sums ("b^dagger+b", "n", "I"): full N x N block;
                   - powers x^k, p^k, "x x x", "dx^2" (k <= 6): full N x N block (the library's closed forms
                     are matrix elements of the exact power);
                   - ordered products ("b b^dagger", "x p", "p x", "x dx", "dx x", ...): the (N-1) x (N-1)
                     block, i.e. up to the documented truncation at the highest level;
                   - [x, p] = i and [b, b^dagger] = 1 on the (N-1) block; Hermiticity; dtype of even p powers.
 B  BasisSHO dvr   V orthogonal, x diagonal = V^T x V, x^k = (x_dvr)^k, p^k / dx / dx^2 = V^T (plain) V,
                   for x0 = 0 and x0 != 0.
 C  BasisSineDVR   every analytic symbol against scipy.integrate.quad of
                   psi_j(x) x^a d^b/dx^b psi_k(x) over [x_0, x_{N+1}], psi_j = sqrt(2/L) sin(j pi (x-x_0)/L);
                   endpoint=True grid; dvr=True = V^T . V with the analytic sine matrix V; grid points.
 D  BasisHalfSpin  all aliases against literal Pauli tables, product symbols of length <= 5, Pauli algebra.
 E  electrons      BasisSimpleElectron / BasisMultiElectron / BasisMultiElectronVac: a single 1 at the
                   documented position ([vacuum, dof0, dof1, ...] order; a^dagger_i a_j = |i><j|), factor,
                   identity; products of the one-symbol matrices where both exist.
 F  BasisHopsBoson / BasisDummy.
 G  HolsteinModel  molecules 1..3, 1..2 modes each, different ground / excited frequencies, explicit or
                   Quantity J (open / periodic), schemes 1-4: dense Hamiltonian assembled from the built
                   model (model.basis, model.ham_terms, BasisSet.op_mat) against
                   H = sum_i E_i n_i + sum_{i!=j} J_ij a^dagger_i a_j + sum_modes [p^2/2 + (1-n_i) w0^2 x^2/2
                       + n_i w1^2 (x-d)^2/2]
                   assembled from own matrices in the documented site order; scheme 4 against the same
                   Hamiltonian on the <= 1-exciton sector; equal-frequency case also against the documented
                   second-quantised form (+ zero-point and on-site constants); spectra across schemes.
 H  SpinBosonModel eps sigma_z + Delta sigma_x + sum (p^2 + w^2 q^2)/2 + sigma_z sum c_i q_i,
                   c_i = -w_i^2 d_i.
 I  TI1DModel      random unit cells (spin / oscillator / electron / multi-electron sites), local and
                   non-local terms with distances -2..ncell+1 (wrap-around), against own dense sum over cells.
 J  Quantity       as_au against literal CODATA ratios, as_unit round trips over all unit pairs (incl.
                   lower-case aliases), to_beta, + - * / ==.

Tolerances: 1e-11 * scale, scale = the same product evaluated on absolute values (bounds every
intermediate); quadrature 1e-8 * scale + error estimate; unit ratios 1e-9 relative.

Stable signatures:
 * "sho:xp-order-swapped"              DESIGN §7 D5 ("x p" = p.x, "p x" = x.p, "x dx", "dx x" likewise); fired on the
                                       pinned tree, silent since the `fix:` commit a6f54c6
 * "sho:xp:origin-x0-ignored"          new, still fires: the same four symbols use y = x - x0 instead of x when x0 != 0
 * "mevac:a_a^dagger:not-product-of-factors"   new, still fires (CHECK_MEVAC_AA_DAGGER_PRODUCT): BasisMultiElectronVac "a a^\\dagger" on (i, j) is |j><i|,
                                       the product a_i . a^dagger_j of its own one-symbol matrices is
                                       delta_ij |vac><vac|
"""
import itertools
import logging
import math

import numpy as np
import scipy.integrate

CHECK_MEVAC_AA_DAGGER_PRODUCT = True

SIG_D5 = "sho:xp-order-swapped"
SIG_X0 = "sho:xp:origin-x0-ignored"
SIG_MEVAC = "mevac:a_a^dagger:not-product-of-factors"

DAG = r"^\dagger"
BD = "b" + DAG
AD = "a" + DAG


class Ctx:
    def __init__(self, run, rng):
        self.run, self.rng = run, rng
        self.evals = 0
        self.distinct = set()
        self.flagged = set()

    def violate(self, sig, obj):
        sig = sig.replace(" ", "_")
        if sig in self.flagged:
            return
        self.flagged.add(sig)
        self.run.violation(sig, obj)

    def ev(self, key):
        self.evals += 1
        self.distinct.add(key)


def jl(a):
    a = np.asarray(a)
    if np.iscomplexobj(a):
        return [[[float(z.real), float(z.imag)] for z in row] for row in a]
    return [[float(z) for z in row] for row in a]


def maxabs(a):
    a = np.asarray(a)
    return float(np.max(np.abs(a))) if a.size else 0.0


# ------------------------------------------------------------------------------------ own matrices
def ladder(M):
    b = np.diag(np.sqrt(np.arange(1, M, dtype=float)), 1) if M > 1 else np.zeros((1, 1))
    return b, b.T.copy()


def sho_ref(om, x0, M):
    b, bd = ladder(M)
    x = math.sqrt(0.5 / om) * (b + bd) + x0 * np.eye(M)
    p = 1j * math.sqrt(om / 2) * (bd - b)
    return {"b": b.astype(complex), BD: bd.astype(complex), "x": x.astype(complex), "p": p, "dx": 1j * p,
            "I": np.eye(M, dtype=complex), "n": (bd @ b).astype(complex), BD + "+b": (bd + b).astype(complex),
            BD + "-b": (bd - b).astype(complex)}


PAULI = {
    "I": np.eye(2, dtype=complex),
    "X": np.array([[0, 1], [1, 0]], dtype=complex),
    "Y": np.array([[0, -1j], [1j, 0]], dtype=complex),
    "Z": np.array([[1, 0], [0, -1]], dtype=complex),
    "+": np.array([[0, 1], [0, 0]], dtype=complex),
    "-": np.array([[0, 0], [1, 0]], dtype=complex),
    "iY": np.array([[0, 1], [-1, 0]], dtype=complex),
}
SPIN_ALIAS = {"I": "I", "X": "X", "x": "X", "sigma_x": "X", "Y": "Y", "y": "Y", "sigma_y": "Y", "Z": "Z", "z": "Z",
              "sigma_z": "Z", "+": "+", "sigma_+": "+", "-": "-", "sigma_-": "-", "iY": "iY", "iy": "iY",
              "isigma_y": "iY"}
E_AD = np.array([[0, 0], [1, 0]], dtype=complex)
E_A = np.array([[0, 1], [0, 0]], dtype=complex)


def kron_sites(dims, site_mats):
    """prod over sites of (matrix on that site or identity)"""
    out = np.eye(1, dtype=complex)
    for s, d in enumerate(dims):
        out = np.kron(out, site_mats.get(s, np.eye(d)))
    return out


def dense_from_model(model):
    """dense Hamiltonian of a built model from model.basis / model.ham_terms / BasisSet.op_mat"""
    from renormalizer.model import Op
    dims = [b.nbas for b in model.basis]
    H = np.zeros((int(np.prod(dims)),) * 2, dtype=complex)
    for t in model.ham_terms:
        per = {}
        for sym, dof in zip(t.split_symbol, t.dofs):
            per.setdefault(model.dof_to_siteidx[dof], []).append((sym, dof))
        mats = {}
        for s, lst in per.items():
            b = model.basis[s]
            mats[s] = np.asarray(b.op_mat(Op(" ".join(x[0] for x in lst), [x[1] for x in lst])))
        H = H + complex(t.factor) * kron_sites(dims, mats)
    return H


def permute_sites(H, dims, order):
    """reorder tensor factors: new factor k = old factor order[k]"""
    n = len(dims)
    T = H.reshape(list(dims) + list(dims))
    T = T.transpose(list(order) + [n + o for o in order])
    D = int(np.prod(dims))
    return T.reshape(D, D)


# ------------------------------------------------------------------------------------ A: BasisSHO
def part_sho(c, nb):
    from renormalizer.model import Op
    from renormalizer.model.basis import BasisSHO
    rng, run = c.rng, c.run
    for _ in range(nb):
        N = int(rng.choice([1, 2, 2, 3, 3, 4, 5, 6, 8]))
        om = float(rng.choice([0.37, 0.5, 1.0, 1.3, 2.0, float(rng.uniform(0.2, 3.0))]))
        x0 = 0.0 if rng.random() < 0.5 else float(rng.choice([-1.25, -0.3, 0.7, 1.5]))
        gen = bool(rng.random() < 0.35)
        dof = [0, "v", ("ph", 1)][int(rng.integers(3))]
        try:
            B = BasisSHO(dof, om, N, x0=x0, general_xp_power=gen)
        except Exception as e:
            c.violate("sho:init:raises:" + type(e).__name__, dict(N=N, omega=om, x0=x0, general=gen, error=str(e)[:200]))
            continue
        run.count(f"sho:N={N}")
        run.count("sho:x0" + ("=0" if x0 == 0 else "!=0"))
        run.count("sho:general_xp_power=%s" % gen)
        M = N + 10
        G = sho_ref(om, x0, M)
        G0 = sho_ref(om, 0.0, M)
        A = {k: np.abs(v) for k, v in G.items()}
        info = dict(basis="BasisSHO", N=N, omega=om, x0=x0, general_xp_power=gen)

        def ref(toks, src=G):
            m = np.eye(M, dtype=complex)
            for t in toks:
                m = m @ src[t]
            return m

        def scale(toks):
            m = np.eye(M)
            for t in toks:
                m = m @ A[t]
            return max(1.0, maxabs(m[:N, :N]))

        def get(sym, factor=None):
            try:
                if factor is None:
                    return np.asarray(B.op_mat(sym))
                return np.asarray(B.op_mat(Op(sym, dof, factor)))
            except Exception as e:
                c.violate(f"sho:op_mat:raises:{sym}", dict(info, symbol=sym, error=type(e).__name__ + ": " + str(e)[:200]))
                return None

        # --- full-block symbols: singles, sums, powers
        full = [("b", ["b"]), (BD, [BD]), ("x", ["x"]), ("p", ["p"]), ("dx", ["dx"]), ("partialx", ["dx"]),
                ("I", ["I"]), ("n", ["n"]), (BD + "+b", [BD + "+b"]), (BD + " + b", [BD + "+b"]), (BD + "-b", [BD + "-b"]),
                ("x^1", ["x"]), ("p^1", ["p"])]
        for k in range(0, 7):
            full.append((f"x^{k}", ["x"] * k))
            full.append((f"p^{k}", ["p"] * k))
        for k in range(2, 5):
            full.append((" ".join(["x"] * k), ["x"] * k))
            full.append((" ".join(["p"] * k), ["p"] * k))
        full += [("dx^2", ["dx", "dx"]), ("dx dx", ["dx", "dx"]), ("partialx partialx", ["dx", "dx"])]
        for sym, toks in full:
            if len(toks) > 4 and rng.random() < 0.5:
                continue
            lib = get(sym)
            if lib is None:
                continue
            c.ev(("sho", N, om, x0, gen, sym))
            E = ref(toks)[:N, :N]
            if lib.shape != (N, N):
                c.violate(f"sho:shape:{sym}", dict(info, symbol=sym, shape=list(lib.shape)))
                continue
            err = maxabs(lib - E)
            if not err <= 1e-11 * scale(toks):
                cls = "power" if len(toks) > 1 or "^" in sym else "single"
                c.violate(f"sho:{cls}:{sym}", dict(info, symbol=sym, max_abs_err=err, library=jl(lib), expected=jl(E)))
            if sym.startswith("p^") and len(toks) % 2 == 0 and np.iscomplexobj(lib):
                c.violate("sho:even-p-power-complex-dtype", dict(info, symbol=sym))
            if toks and set(toks) <= {"x", "p"} and maxabs(lib - lib.conj().T) > 1e-11 * scale(toks):
                c.violate(f"sho:not-hermitian:{sym}", dict(info, symbol=sym))
        # factor
        f = complex(float(rng.choice([-2.0, 0.5, 3.0])), float(rng.choice([0.0, 1.0])))
        sym = str(rng.choice(["x", "p^2", BD + " b", "x^3"]))
        l1, l2 = get(sym), get(sym, f)
        if l1 is not None and l2 is not None and maxabs(l2 - f * l1) > 1e-12 * max(1.0, maxabs(l1)) * abs(f):
            c.violate("sho:factor", dict(info, symbol=sym, factor=[f.real, f.imag]))

        # --- ordered products, (N-1) block
        if N >= 2:
            n1 = N - 1
            prods = [("b b", ["b", "b"]), (BD + " " + BD, [BD, BD]), (BD + " b", [BD, "b"]), ("b " + BD, ["b", BD])]
            for sym, toks in prods:
                lib = get(sym)
                if lib is None:
                    continue
                c.ev(("sho", N, om, x0, gen, sym))
                E = ref(toks)[:n1, :n1]
                err = maxabs(lib[:n1, :n1] - E)
                if not err <= 1e-11 * scale(toks):
                    c.violate(f"sho:product:{sym}", dict(info, symbol=sym, max_abs_err=err, library=jl(lib), expected_block=jl(E)))
            for sym, toks in [("x p", ["x", "p"]), ("p x", ["p", "x"]), ("x dx", ["x", "dx"]), ("dx x", ["dx", "x"]),
                              ("x partialx", ["x", "dx"])]:
                lib = get(sym)
                if lib is None:
                    continue
                c.ev(("sho", N, om, x0, gen, sym))
                tol = 1e-11 * scale(toks)
                L = lib[:n1, :n1]
                E = ref(toks)[:n1, :n1]
                if maxabs(L - E) <= tol:
                    run.count("sho:xp-symbols-correct")
                    continue
                rev = list(reversed(toks))
                sw = ref(rev)[:n1, :n1]
                E0 = ref(toks, G0)[:n1, :n1]
                sw0 = ref(rev, G0)[:n1, :n1]
                rep = dict(info, symbol=sym, library=jl(lib), expected_block=jl(E), max_abs_err=maxabs(L - E))
                if maxabs(L - sw) <= tol:
                    c.violate(SIG_D5, rep)                     # product in the opposite order (x0 invisible or 0)
                elif x0 != 0 and maxabs(L - E0) <= tol:
                    c.violate(SIG_X0, rep)                     # right order, but y = x - x0 used for x
                elif x0 != 0 and maxabs(L - sw0) <= tol:
                    c.violate(SIG_D5, rep)
                    c.violate(SIG_X0, rep)
                else:
                    c.violate(f"sho:product:{sym}", rep)
            # canonical commutators from the library's own one-symbol matrices
            lx, lp, lb, lbd = get("x"), get("p"), get("b"), get(BD)
            if lx is not None and lp is not None:
                cm = (lx @ lp - lp @ lx)[:n1, :n1]
                if maxabs(cm - 1j * np.eye(n1)) > 1e-11 * scale(["x", "p"]):
                    c.violate("sho:commutator-x-p", dict(info, commutator_block=jl(cm)))
            if lb is not None and lbd is not None:
                cm = (lb @ lbd - lbd @ lb)[:n1, :n1]
                if maxabs(cm - np.eye(n1)) > 1e-11 * N:
                    c.violate("sho:commutator-b-bdagger", dict(info, commutator_block=jl(cm)))
        # copy()
        try:
            B2 = B.copy("other")
            if B2.dofs != ("other",) or B2.nbas != N or maxabs(np.asarray(B2.op_mat("x^2")) - np.asarray(B.op_mat("x^2"))) != 0:
                c.violate("sho:copy", dict(info))
        except Exception as e:
            c.violate("sho:copy:raises", dict(info, error=str(e)[:200]))


# ------------------------------------------------------------------------------------ B: SHO DVR
def part_sho_dvr(c, nb):
    from renormalizer.model.basis import BasisSHO
    rng, run = c.rng, c.run
    for _ in range(nb):
        N = int(rng.choice([2, 3, 4, 5, 7]))
        om = float(rng.choice([0.5, 1.0, 1.7, float(rng.uniform(0.3, 2.5))]))
        x0 = 0.0 if rng.random() < 0.5 else float(rng.choice([-0.8, 0.6]))
        gen = bool(rng.random() < 0.3)
        info = dict(basis="BasisSHO(dvr=True)", N=N, omega=om, x0=x0, general_xp_power=gen)
        try:
            P = BasisSHO(0, om, N, x0=x0, general_xp_power=gen)
            D = BasisSHO(0, om, N, x0=x0, dvr=True, general_xp_power=gen)
            V = np.asarray(D.dvr_v)
            run.count("shodvr:N=%d" % N)
            if maxabs(V.T @ V - np.eye(N)) > 1e-12 * N:
                c.violate("shodvr:V-not-orthogonal", info)
                continue
            xs = np.asarray(D.op_mat("x"))
            G = sho_ref(om, x0, N)
            xN = G["x"].real
            sc = max(1.0, maxabs(xN)) ** 2
            c.ev(("shodvr", N, om, x0, gen, "x"))
            if maxabs(xs - np.diag(np.diag(xs))) != 0 or maxabs(V @ xs @ V.T - xN) > 1e-11 * sc:
                c.violate("shodvr:x", dict(info, library=jl(xs)))
            for k in [1, 2, 3, 4]:
                sym = f"x^{k}"
                lib = np.asarray(D.op_mat(sym))
                c.ev(("shodvr", N, om, x0, gen, sym))
                if maxabs(lib - np.linalg.matrix_power(xs, k)) > 1e-11 * max(1.0, maxabs(xN)) ** k * N:
                    c.violate("shodvr:x-power", dict(info, symbol=sym, library=jl(lib)))
            for sym in ["p", "p^2", "p^3", "p^4", "p p", "dx", "dx^2", "dx dx", "I"]:
                lib = np.asarray(D.op_mat(sym))
                pl = np.asarray(P.op_mat(sym))
                c.ev(("shodvr", N, om, x0, gen, sym))
                if maxabs(lib - V.T @ pl @ V) > 1e-11 * max(1.0, maxabs(pl)) * N:
                    c.violate("shodvr:not-unitarily-consistent:" + sym, dict(info, symbol=sym, library=jl(lib)))
        except Exception as e:
            c.violate("shodvr:raises:" + type(e).__name__, dict(info, error=str(e)[:200]))


# ------------------------------------------------------------------------------------ C: sine DVR
SINE_SYMS = {
    # symbol: (power of x, derivative order, prefactor)
    "I": (0, 0, 1), "x": (1, 0, 1), "x^1": (1, 0, 1), "x^2": (2, 0, 1), "x^3": (3, 0, 1), "x x": (2, 0, 1),
    "x x x": (3, 0, 1), "dx": (0, 1, 1), "partialx": (0, 1, 1), "dx^2": (0, 2, 1), "dx dx": (0, 2, 1), "p": (0, 1, -1j),
    "p^2": (0, 2, -1), "x dx": (1, 1, 1), "x partialx": (1, 1, 1), "x^2 p^2": (2, 2, -1), "x^2 dx^2": (2, 2, 1),
    "x^2 dx": (2, 1, 1), "x p^2": (1, 2, -1), "x dx^2": (1, 2, 1), "x^3 p^2": (3, 2, -1), "x^3 dx^2": (3, 2, 1),
}


def sine_quad(N, xi, L, a, b):
    """Q[j,k] = int psi_j x^a d^b psi_k / dx^b over [xi, xi+L]; returns (Q, abs err estimate)"""
    Q = np.zeros((N, N))
    err = 0.0
    for j in range(1, N + 1):
        for k in range(1, N + 1):
            kj, kk = j * math.pi / L, k * math.pi / L

            def f(x):
                u = x - xi
                bra = math.sqrt(2 / L) * math.sin(kj * u)
                if b == 0:
                    ket = math.sin(kk * u)
                elif b == 1:
                    ket = kk * math.cos(kk * u)
                else:
                    ket = -kk * kk * math.sin(kk * u)
                return bra * x ** a * math.sqrt(2 / L) * ket
            val, e = scipy.integrate.quad(f, xi, xi + L, limit=200, epsabs=1e-13, epsrel=1e-13)
            Q[j - 1, k - 1] = val
            err = max(err, e)
    return Q, err


def part_sine(c, nb):
    from renormalizer.model import Op
    from renormalizer.model.basis import BasisSineDVR
    rng, run = c.rng, c.run
    for _ in range(nb):
        N = int(rng.choice([2, 3, 4, 5]))
        xi = float(rng.choice([-2.0, -0.5, 0.0, 0.3, 1.0]))
        xf = xi + float(rng.choice([0.8, 1.0, 2.5, math.pi]))
        endpoint = bool(rng.random() < 0.35)
        dvr = bool(rng.random() < 0.35)
        info = dict(basis="BasisSineDVR", N=N, xi=xi, xf=xf, endpoint=endpoint, dvr=dvr)
        try:
            B = BasisSineDVR("q", N, xi, xf, endpoint=endpoint, dvr=dvr)
        except Exception as e:
            c.violate("sine:init:raises", dict(info, error=str(e)[:200]))
            continue
        run.count("sine:N=%d" % N)
        run.count("sine:endpoint=%s,dvr=%s" % (endpoint, dvr))
        if endpoint:
            h = (xf - xi) / (N - 1)
            x0, x1 = xi - h, xf + h
        else:
            x0, x1 = xi, xf
        L = x1 - x0
        grid = x0 + np.arange(1, N + 1) * L / (N + 1)
        if maxabs(np.asarray(B.dvr_x) - grid) > 1e-13 * max(1.0, abs(x0), abs(x1)):
            c.violate("sine:grid", dict(info, library=[float(v) for v in B.dvr_x], expected=[float(v) for v in grid]))
        jj = np.arange(1, N + 1)
        V = math.sqrt(2 / (N + 1)) * np.sin(np.outer(jj, jj) * math.pi / (N + 1))
        if maxabs(np.asarray(B.dvr_v) - V) > 1e-13:
            c.violate("sine:dvr_v", info)
        cache = {}
        syms = list(SINE_SYMS)
        sel = [s for s in syms if rng.random() < 0.7]
        for sym in sel:
            a, b, pre = SINE_SYMS[sym]
            if (a, b) not in cache:
                cache[(a, b)] = sine_quad(N, x0, L, a, b)
            Q, qerr = cache[(a, b)]
            E = pre * Q
            if dvr:
                E = V.T @ E @ V
            fac = float(rng.choice([1.0, 1.0, -0.5, 2.0]))
            try:
                lib = np.asarray(B.op_mat(sym) if fac == 1.0 else B.op_mat(Op(sym, "q", fac)))
            except Exception as e:
                c.violate("sine:op_mat:raises:" + sym, dict(info, symbol=sym, error=type(e).__name__ + ": " + str(e)[:200]))
                continue
            c.ev(("sine", N, xi, xf, endpoint, dvr, sym))
            sc = max(1.0, max(abs(x0), abs(x1)) ** a * (N * math.pi / L) ** b)
            err = maxabs(lib - fac * E)
            if not err <= abs(fac) * (1e-8 * sc + 10 * N * qerr):
                c.violate("sine:integral:" + sym, dict(info, symbol=sym, factor=fac, max_abs_err=err, library=jl(lib),
                                                        quadrature=jl(fac * E)))
        try:
            B2 = B.copy("r")
            if B2.dofs != ("r",) or B2.nbas != N or abs(B2.xi - B.xi) > 0 or abs(B2.xf - B.xf) > 0:
                c.violate("sine:copy", info)
        except Exception as e:
            c.violate("sine:copy:raises", dict(info, error=str(e)[:200]))


# ------------------------------------------------------------------------------------ D: half spin
def part_spin(c, nb):
    from renormalizer.model import Op
    from renormalizer.model.basis import BasisHalfSpin
    rng, run = c.rng, c.run
    for it in range(nb):
        sq = [None, [0, 0], [1, -1], [[0, 1], [1, 0]]][int(rng.integers(4))]
        dof = ["s", 3, ("spin", 0)][int(rng.integers(3))]
        B = BasisHalfSpin(dof) if sq is None else BasisHalfSpin(dof, sq)
        info = dict(basis="BasisHalfSpin", sigmaqn=sq)
        if it == 0:
            for name, key in SPIN_ALIAS.items():
                try:
                    lib = np.asarray(B.op_mat(name))
                except Exception as e:
                    c.violate("spin:op_mat:raises:" + name, dict(info, symbol=name, error=str(e)[:200]))
                    continue
                c.ev(("spin", name))
                if lib.shape != (2, 2) or maxabs(lib - PAULI[key]) != 0:
                    c.violate("spin:table:" + name, dict(info, symbol=name, library=jl(lib), expected=jl(PAULI[key])))
            # Pauli algebra on the library's own matrices
            try:
                X, Y, Z = (np.asarray(B.op_mat(s)) for s in "XYZ")
                Pp, Pm = np.asarray(B.op_mat("+")), np.asarray(B.op_mat("-"))
                ok = True
                for (a, b_, c_) in [(X, Y, Z), (Y, Z, X), (Z, X, Y)]:
                    ok &= maxabs(a @ b_ - 1j * c_) == 0 and maxabs(a @ b_ + b_ @ a) == 0 and maxabs(a @ a - np.eye(2)) == 0
                    ok &= maxabs(a - a.conj().T) == 0
                ok &= maxabs(Pp - (X + 1j * Y) / 2) == 0 and maxabs(Pm - (X - 1j * Y) / 2) == 0
                ok &= maxabs(Pp @ Pm - Pm @ Pp - Z) == 0
                if not ok:
                    c.violate("spin:pauli-algebra", info)
            except Exception as e:
                c.violate("spin:pauli-algebra:raises", dict(info, error=str(e)[:200]))
        n = int(rng.integers(2, 6))
        names = [str(rng.choice(list(SPIN_ALIAS))) for _ in range(n)]
        fac = complex(float(rng.choice([1.0, -0.5, 2.0])), float(rng.choice([0.0, 0.0, 1.5])))
        E = np.eye(2, dtype=complex)
        for s in names:
            E = E @ PAULI[SPIN_ALIAS[s]]
        sym = " ".join(names)
        try:
            lib = np.asarray(B.op_mat(Op(sym, dof, fac)))
        except Exception as e:
            c.violate("spin:product:raises", dict(info, symbol=sym, error=type(e).__name__ + ": " + str(e)[:200]))
            continue
        c.ev(("spin", sym))
        run.count("spin:product-len=%d" % n)
        if maxabs(lib - fac * E) > 1e-14 * abs(fac):
            c.violate("spin:product-order", dict(info, symbol=sym, factor=[fac.real, fac.imag], library=jl(lib), expected=jl(fac * E)))


# ------------------------------------------------------------------------------------ E: electrons
def single_one(n, i, j):
    m = np.zeros((n, n))
    m[i, j] = 1.0
    return m


def part_electron(c, nb):
    from renormalizer.model import Op
    from renormalizer.model.basis import BasisSimpleElectron, BasisMultiElectron, BasisMultiElectronVac
    rng, run = c.rng, c.run
    # simple electron
    for sq in [None, [0, 1], [[0, 0], [1, 0]]]:
        B = BasisSimpleElectron("e") if sq is None else BasisSimpleElectron("e", sq)
        info = dict(basis="BasisSimpleElectron", sigmaqn=sq)
        tab = {AD: single_one(2, 1, 0), "a": single_one(2, 0, 1), AD + " a": single_one(2, 1, 1), "I": np.eye(2)}
        for sym, E in tab.items():
            f = float(rng.choice([1.0, -2.0, 0.5]))
            try:
                lib = np.asarray(B.op_mat(Op(sym, "e", f)))
                lib_s = np.asarray(B.op_mat(sym))
            except Exception as e:
                c.violate("selec:raises:" + sym, dict(info, symbol=sym, error=str(e)[:200]))
                continue
            c.ev(("selec", sym, repr(sq)))
            if maxabs(lib - f * E) != 0 or maxabs(lib_s - E) != 0:
                c.violate("selec:table:" + sym, dict(info, symbol=sym, library=jl(lib_s), expected=jl(E)))
        try:
            if maxabs(np.asarray(B.op_mat(AD)) @ np.asarray(B.op_mat("a")) - np.asarray(B.op_mat(AD + " a"))) != 0:
                c.violate("selec:product", info)
            exp_qn = [[0], [1]] if sq is None else [[q] if isinstance(q, int) else list(q) for q in sq]
            if np.asarray(B.sigmaqn).tolist() != exp_qn:
                c.violate("selec:sigmaqn", dict(info, library=np.asarray(B.sigmaqn).tolist()))
        except Exception as e:
            c.violate("selec:raises", dict(info, error=str(e)[:200]))
    for _ in range(nb):
        n = int(rng.integers(1, 5))
        names = [["a", "b", "c", "d"], [0, 1, 2, 3], [("e", 0), ("e", 1), ("e", 2), ("e", 3)], [3, "x", 0, ("k",)]][int(rng.integers(4))][:n]
        names = [names[i] for i in rng.permutation(n)]
        f = complex(float(rng.choice([1.0, -0.5, 2.0])), float(rng.choice([0.0, 1.0])))
        # ---- without vacuum
        sq = [int(v) for v in rng.integers(0, 2, size=n)]
        info = dict(basis="BasisMultiElectron", dofs=[repr(x) for x in names], sigmaqn=sq)
        try:
            B = BasisMultiElectron(names, sq)
            run.count("melec:n=%d" % n)
            if B.nbas != n or tuple(B.dofs) != tuple(names):
                c.violate("melec:fields", info)
            for i, j in itertools.product(range(n), repeat=2):
                lib = np.asarray(B.op_mat(Op(AD + " a", [names[i], names[j]], f)))
                c.ev(("melec", n, i, j, "ada"))
                if maxabs(lib - f * single_one(n, i, j)) != 0:
                    c.violate("melec:table:a^dagger a", dict(info, i=i, j=j, library=jl(lib)))
                lib = np.asarray(B.op_mat(Op("a " + AD, [names[i], names[j]], f)))
                c.ev(("melec", n, i, j, "aad"))
                if maxabs(lib - f * single_one(n, j, i)) != 0:
                    c.violate("melec:table:a a^dagger", dict(info, i=i, j=j, library=jl(lib)))
            for sym, dofs in [("I", names[0]), ("I I", [names[0], names[-1]])]:
                lib = np.asarray(B.op_mat(Op(sym, dofs)))
                if maxabs(lib - np.eye(n)) != 0:
                    c.violate("melec:identity", dict(info, symbol=sym))
            B2 = B.copy([("c", x) for x in names])
            if np.asarray(B2.sigmaqn).tolist() != np.asarray(B.sigmaqn).tolist() or B2.nbas != n:
                c.violate("melec:copy", info)
        except Exception as e:
            c.violate("melec:raises:" + type(e).__name__, dict(info, error=str(e)[:200]))
        # ---- with vacuum
        info = dict(basis="BasisMultiElectronVac", dofs=[repr(x) for x in names])
        try:
            B = BasisMultiElectronVac(names)
            if B.nbas != n + 1 or np.asarray(B.sigmaqn).tolist() != [[0]] + [[1]] * n:
                c.violate("mevac:fields", info)
            cr, an = [], []
            for i in range(n):
                l1 = np.asarray(B.op_mat(Op(AD, names[i], f)))
                l2 = np.asarray(B.op_mat(Op("a", names[i], f)))
                c.ev(("mevac", n, i, "single"))
                if maxabs(l1 - f * single_one(n + 1, i + 1, 0)) != 0 or maxabs(l2 - f * single_one(n + 1, 0, i + 1)) != 0:
                    c.violate("mevac:table:single", dict(info, i=i, creation=jl(l1), annihilation=jl(l2)))
                cr.append(np.asarray(B.op_mat(Op(AD, names[i]))))
                an.append(np.asarray(B.op_mat(Op("a", names[i]))))
            for i, j in itertools.product(range(n), repeat=2):
                lib = np.asarray(B.op_mat(Op(AD + " a", [names[i], names[j]], f)))
                c.ev(("mevac", n, i, j, "ada"))
                if maxabs(lib - f * single_one(n + 1, i + 1, j + 1)) != 0:
                    c.violate("mevac:table:a^dagger a", dict(info, i=i, j=j, library=jl(lib)))
                if maxabs(lib - f * (cr[i] @ an[j])) != 0:
                    c.violate("mevac:a^dagger a:not-product-of-factors", dict(info, i=i, j=j, library=jl(lib)))
                lib = np.asarray(B.op_mat(Op("a " + AD, [names[i], names[j]])))
                c.ev(("mevac", n, i, j, "aad"))
                if CHECK_MEVAC_AA_DAGGER_PRODUCT and maxabs(lib - an[i] @ cr[j]) != 0:
                    if maxabs(lib - single_one(n + 1, j + 1, i + 1)) == 0:
                        c.violate(SIG_MEVAC, dict(info, i=i, j=j, library=jl(lib), product_of_factors=jl(an[i] @ cr[j])))
                    else:
                        c.violate("mevac:table:a a^dagger", dict(info, i=i, j=j, library=jl(lib)))
            for sym, dofs in [("I", names[0]), ("I I", [names[0], names[-1]]), ("I I I", [names[0]] * 3)]:
                lib = np.asarray(B.op_mat(Op(sym, dofs)))
                if maxabs(lib - np.eye(n + 1)) != 0:
                    c.violate("mevac:identity", dict(info, symbol=sym))
        except Exception as e:
            c.violate("mevac:raises:" + type(e).__name__, dict(info, error=str(e)[:200]))


# ------------------------------------------------------------------------------------ F: hops boson, dummy
def part_misc(c):
    from renormalizer.model import Op
    from renormalizer.model.basis import BasisHopsBoson, BasisDummy
    for N in [1, 2, 3, 5]:
        info = dict(basis="BasisHopsBoson", N=N)
        try:
            B = BasisHopsBoson("h", N)
            bt = np.asarray(B.op_mat(r"\tilde{b}"))
            btd = np.asarray(B.op_mat(r"\tilde{b}^\dagger"))
            nn = np.asarray(B.op_mat(BD + " b"))
            c.ev(("hops", N))
            E_bt = np.zeros((N, N))
            E_btd = np.zeros((N, N))
            for n in range(N - 1):
                E_btd[n + 1, n] = n + 1          # b~^dagger |n> = (n+1) |n+1>
                E_bt[n, n + 1] = 1.0             # b~ |n+1> = |n>
            if maxabs(bt - E_bt) != 0 or maxabs(btd - E_btd) != 0 or maxabs(nn - np.diag(np.arange(N))) != 0:
                c.violate("hops:table", dict(info, b=jl(bt), bdag=jl(btd), n=jl(nn)))
            if maxabs(btd @ bt - nn) != 0:
                c.violate("hops:number-operator-not-product", info)
            if N > 1 and maxabs((bt @ btd - btd @ bt)[:N - 1, :N - 1] - np.eye(N - 1)) != 0:
                c.violate("hops:commutator", info)
            if maxabs(np.asarray(B.op_mat(Op("I", "h", 2.0))) - 2 * np.eye(N)) != 0:
                c.violate("hops:identity", info)
        except Exception as e:
            c.violate("hops:raises:" + type(e).__name__, dict(info, error=str(e)[:200]))
    try:
        B = BasisDummy("d")
        c.ev(("dummy",))
        if B.nbas != 1 or maxabs(np.asarray(B.op_mat(Op("I", "d", 3.0))) - 3 * np.eye(1)) != 0:
            c.violate("dummy:identity", {})
    except Exception as e:
        c.violate("dummy:raises", dict(error=str(e)[:200]))


# ------------------------------------------------------------------------------------ G: Holstein
def sho_exact(om, N):
    """own matrices on N levels: x, exact restricted x^2 and p^2"""
    G = sho_ref(om, 0.0, N + 4)
    x = G["x"][:N, :N].real
    x2 = (G["x"] @ G["x"])[:N, :N].real
    p2 = (G["p"] @ G["p"])[:N, :N].real
    return x, x2, p2


def part_holstein(c, nb):
    from renormalizer.model import Mol, Phonon, HolsteinModel
    from renormalizer.utils import Quantity
    rng, run = c.rng, c.run
    for _ in range(nb):
        nmol = int(rng.choice([1, 2, 2, 3, 3]))
        budget = 4 if nmol < 3 else 3
        mols = []
        for i in range(nmol):
            nph = int(rng.integers(1, 3))
            if budget - nph < (nmol - i - 1):
                nph = 1
            budget -= nph
            phs = []
            for _k in range(nph):
                w0 = float(rng.choice([0.5, 0.8, 1.0, 1.6]))
                w1 = w0 if rng.random() < 0.5 else float(rng.choice([0.6, 1.2, 2.0]))
                d = float(rng.choice([-1.2, -0.4, 0.5, 1.0]))
                nl = int(rng.choice([2, 3]))
                phs.append((w0, w1, d, nl))
            mols.append(dict(e=float(rng.choice([-0.7, 0.0, 0.9, 2.0])), phs=phs))
        jmode = str(rng.choice(["quantity", "matrix", "matrix-asym"] if nmol < 3 else
                               ["quantity", "quantity-periodic", "quantity-periodic", "matrix", "matrix-asym"]))
        jc = float(rng.choice([-0.6, 0.3, 1.1]))
        if jmode.startswith("quantity"):
            J = np.zeros((nmol, nmol))
            for i in range(nmol - 1):
                J[i, i + 1] = J[i + 1, i] = jc
            if jmode == "quantity-periodic":
                J[0, nmol - 1] = J[nmol - 1, 0] = jc
            jarg = Quantity(jc)
            periodic = jmode == "quantity-periodic"
        else:
            J = np.round(rng.uniform(-1, 1, size=(nmol, nmol)), 2)
            if jmode == "matrix":
                J = (J + J.T) / 2
            jarg = J.copy()
            periodic = False
        info = dict(builder="HolsteinModel", mols=mols, j=jl(J), jmode=jmode)
        run.count("holstein:nmol=%d" % nmol)
        run.count("holstein:j=" + jmode)

        def build_mols():
            out = []
            for m in mols:
                phs = [Phonon([Quantity(w0), Quantity(w1)], [Quantity(0), Quantity(d)], nl) for (w0, w1, d, nl) in m["phs"]]
                out.append(Mol(Quantity(m["e"]), phs, dipole=1.0))
            return out

        # ---- own Hamiltonian, full electron space, documented order [e0, ph00, ph01, ..., e1, ...]
        labels, dims = [], []
        for i, m in enumerate(mols):
            labels.append(("e", i))
            dims.append(2)
            for k, ph in enumerate(m["phs"]):
                labels.append(("ph", i, k))
                dims.append(ph[3])
        site = {l: s for s, l in enumerate(labels)}
        D = int(np.prod(dims))
        nmat = E_AD @ E_A
        H = np.zeros((D, D), dtype=complex)
        Hb = np.zeros((D, D), dtype=complex)         # documented second-quantised form (equal frequencies only)
        simple = all(ph[0] == ph[1] for m in mols for ph in m["phs"])
        for i, m in enumerate(mols):
            H += m["e"] * kron_sites(dims, {site[("e", i)]: nmat})
            Hb += m["e"] * kron_sites(dims, {site[("e", i)]: nmat})
            for j in range(nmol):
                if i != j and J[i, j] != 0:
                    hop = J[i, j] * kron_sites(dims, {site[("e", i)]: E_AD, site[("e", j)]: E_A})
                    H += hop
                    Hb += hop
            for k, (w0, w1, d, nl) in enumerate(m["phs"]):
                x, x2, p2 = sho_exact(w0, nl)
                hg = 0.5 * p2 + 0.5 * w0 ** 2 * x2
                he = 0.5 * p2 + 0.5 * w1 ** 2 * (x2 - 2 * d * x + d * d * np.eye(nl))
                s = site[("ph", i, k)]
                H += kron_sites(dims, {s: hg}) + kron_sites(dims, {site[("e", i)]: nmat, s: he - hg})
                if simple:
                    b, bd = ladder(nl)
                    g = -d * math.sqrt(w0 / 2)                 # g w (b^dagger + b) = -w^2 d x
                    Hb += w0 * kron_sites(dims, {s: bd @ b + 0.5 * np.eye(nl)})
                    Hb += g * w0 * kron_sites(dims, {site[("e", i)]: nmat, s: bd + b})
                    Hb += g * g * w0 * kron_sites(dims, {site[("e", i)]: nmat})
        sc = max(1.0, maxabs(H))
        if simple and maxabs(H - Hb) > 1e-11 * sc:
            raise AssertionError("harness self-check failed: PES form and second-quantised form differ")
        # ---- <= 1 exciton sector in canonical order (electron index first, then all modes)
        ph_labels = [l for l in labels if l[0] == "ph"]
        order = [site[("e", i)] for i in range(nmol)] + [site[l] for l in ph_labels]
        Hc_full = permute_sites(H, dims, order)
        Dph = int(np.prod([dims[site[l]] for l in ph_labels]))
        sel = [0] + [1 << (nmol - 1 - i) for i in range(nmol)]
        T = Hc_full.reshape(2 ** nmol, Dph, 2 ** nmol, Dph)
        Hcan = T[np.ix_(sel, range(Dph), sel, range(Dph))].reshape((nmol + 1) * Dph, (nmol + 1) * Dph)

        dense = {}
        for scheme in [1, 2, 3, 4]:
            try:
                model = HolsteinModel(build_mols(), jarg if not isinstance(jarg, np.ndarray) else jarg.copy(),
                                      scheme=scheme, periodic=periodic)
                Hs = dense_from_model(model)
            except Exception as e:
                c.violate(f"holstein:scheme{scheme}:raises:{type(e).__name__}", dict(info, error=str(e)[:300]))
                continue
            c.ev(("holstein", repr(mols), jmode, jc, scheme))
            got_dofs = [tuple(b.dofs) for b in model.basis]
            if scheme < 4:
                exp_dofs = [((l[1],) if l[0] == "e" else ((l[1], l[2]),)) for l in labels]
                if got_dofs != exp_dofs or [b.nbas for b in model.basis] != dims:
                    c.violate("holstein:basis-order", dict(info, scheme=scheme, library=repr(got_dofs)))
                    continue
                err = maxabs(Hs - H)
                if not err <= 1e-11 * sc:
                    c.violate("holstein:hamiltonian:scheme1-3", dict(info, scheme=scheme, max_abs_err=err))
                    continue
                dense[scheme] = Hs
            else:
                nleft = nmol // 2
                l4 = [l for l in ph_labels if l[1] < nleft] + ["E"] + [l for l in ph_labels if l[1] >= nleft]
                exp_dofs = [tuple(range(nmol)) if l == "E" else ((l[1], l[2]),) for l in l4]
                d4 = [nmol + 1 if l == "E" else dims[site[l]] for l in l4]
                if got_dofs != exp_dofs or [b.nbas for b in model.basis] != d4:
                    c.violate("holstein:basis-order", dict(info, scheme=4, library=repr(got_dofs)))
                    continue
                pos = {l: s for s, l in enumerate(l4)}
                H4 = permute_sites(Hs, d4, [pos["E"]] + [pos[l] for l in ph_labels])
                err = maxabs(H4 - Hcan)
                if not err <= 1e-11 * sc:
                    c.violate("holstein:hamiltonian:scheme4", dict(info, scheme=4, max_abs_err=err))
                    continue
                dense[4] = H4
            # attributes documented on the class
            try:
                zpe = sum(ph[0] for m in mols for ph in m["phs"]) / 2
                if abs(model.gs_zpe - zpe) > 1e-13 * max(1, zpe) or model.mol_num != nmol or maxabs(np.asarray(model.j_matrix) - J) != 0:
                    c.violate("holstein:attributes", dict(info, scheme=scheme))
            except Exception as e:
                c.violate("holstein:attributes:raises", dict(info, error=str(e)[:200]))
        if 4 in dense and 2 in dense and jmode != "matrix-asym":
            Hc2 = permute_sites(dense[2], dims, order).reshape(2 ** nmol, Dph, 2 ** nmol, Dph)
            blk = Hc2[np.ix_(sel, range(Dph), sel, range(Dph))].reshape(Hcan.shape)
            e2 = np.linalg.eigvalsh((blk + blk.conj().T) / 2)
            e4 = np.linalg.eigvalsh((dense[4] + dense[4].conj().T) / 2)
            if maxabs(e2 - e4) > 1e-10 * sc:
                c.violate("holstein:spectra-differ-across-schemes", dict(info, max_abs_err=maxabs(e2 - e4)))
            # the builders conserve the exciton number: no coupling out of the shared sector
            notsel = [i for i in range(2 ** nmol) if i not in sel]
            if notsel and maxabs(Hc2[np.ix_(sel, range(Dph), notsel, range(Dph))]) != 0:
                c.violate("holstein:sector-coupling", info)
            try:
                m2 = HolsteinModel(build_mols(), jarg if not isinstance(jarg, np.ndarray) else jarg.copy(), scheme=2,
                                   periodic=periodic).switch_scheme(4)
                if maxabs(permute_sites(dense_from_model(m2), d4, [pos["E"]] + [pos[l] for l in ph_labels]) - dense[4]) > 1e-12 * sc:
                    c.violate("holstein:switch_scheme", info)
            except Exception as e:
                c.violate("holstein:switch_scheme:raises", dict(info, error=str(e)[:200]))


# ------------------------------------------------------------------------------------ H: spin boson
def part_spinboson(c, nb):
    from renormalizer.model import Phonon, SpinBosonModel
    from renormalizer.utils import Quantity
    rng, run = c.rng, c.run
    for _ in range(nb):
        nph = int(rng.integers(1, 4))
        eps = float(rng.choice([-0.5, 0.0, 0.8]))
        delta = float(rng.choice([-1.0, 0.3, 0.6]))
        phs = [(float(rng.choice([0.4, 1.0, 1.9])), float(rng.choice([-1.0, 0.3, 0.7])), int(rng.choice([2, 3, 4]))) for _ in range(nph)]
        info = dict(builder="SpinBosonModel", epsilon=eps, delta=delta, phonons=phs)
        run.count("spinboson:nph=%d" % nph)
        dims = [2] + [p[2] for p in phs]
        H = eps * kron_sites(dims, {0: PAULI["Z"]}) + delta * kron_sites(dims, {0: PAULI["X"]})
        for k, (w, d, nl) in enumerate(phs):
            x, x2, p2 = sho_exact(w, nl)
            H = H + kron_sites(dims, {k + 1: 0.5 * p2 + 0.5 * w * w * x2})
            H = H + (-w * w * d) * kron_sites(dims, {0: PAULI["Z"], k + 1: x})
        try:
            model = SpinBosonModel(Quantity(eps), Quantity(delta),
                                   [Phonon.simple_phonon(Quantity(w), Quantity(d), nl) for (w, d, nl) in phs])
            Hs = dense_from_model(model)
        except Exception as e:
            c.violate("spinboson:raises:" + type(e).__name__, dict(info, error=str(e)[:300]))
            continue
        c.ev(("spinboson", eps, delta, repr(phs)))
        if [tuple(b.dofs) for b in model.basis] != [("spin",)] + [(k,) for k in range(nph)]:
            c.violate("spinboson:basis-order", info)
            continue
        err = maxabs(Hs - H)
        if not err <= 1e-11 * max(1.0, maxabs(H)):
            c.violate("spinboson:hamiltonian", dict(info, max_abs_err=err))


# ------------------------------------------------------------------------------------ I: TI1D
def part_ti1d(c, nb):
    from renormalizer.model import Op, TI1DModel
    from renormalizer.model.basis import BasisHalfSpin, BasisSHO, BasisSimpleElectron, BasisMultiElectronVac
    rng, run = c.rng, c.run
    for _ in range(nb):
        ncell = int(rng.choice([1, 2, 3, 3, 4]))
        kinds = []
        cell_dim = 1
        for _s in range(int(rng.integers(1, 3))):
            k = str(rng.choice(["spin", "spin", "sho", "elec", "mev"]))
            d = {"spin": 2, "sho": 2, "elec": 2, "mev": 3}[k]
            if (cell_dim * d) ** ncell > 300:
                continue
            kinds.append(k)
            cell_dim *= d
        if not kinds:
            kinds = ["spin"]
        basis, udofs = [], []      # udofs: (dof, unit site, kind, index within site)
        om = float(rng.choice([0.7, 1.4]))
        for u, k in enumerate(kinds):
            if k == "spin":
                basis.append(BasisHalfSpin(f"s{u}"))
                udofs.append((f"s{u}", u, k, 0))
            elif k == "sho":
                basis.append(BasisSHO(("v", u), om, 2))
                udofs.append((("v", u), u, k, 0))
            elif k == "elec":
                basis.append(BasisSimpleElectron(u))
                udofs.append((u, u, k, 0))
            else:
                basis.append(BasisMultiElectronVac([f"m{u}a", f"m{u}b"]))
                udofs.append((f"m{u}a", u, k, 0))
                udofs.append((f"m{u}b", u, k, 1))
        udims = [b.nbas for b in basis]
        nu = len(basis)
        dims = udims * ncell
        G = sho_ref(om, 0.0, 2)

        def single(kind, sym, idx):
            if kind == "spin":
                return PAULI[SPIN_ALIAS[sym]]
            if kind == "sho":
                return G[sym]
            if kind == "elec":
                return {AD: E_AD, "a": E_A, "I": np.eye(2)}[sym]
            m = np.zeros((3, 3), dtype=complex)
            if sym == AD:
                m[idx + 1, 0] = 1
            elif sym == "a":
                m[0, idx + 1] = 1
            else:
                m = np.eye(3, dtype=complex)
            return m

        def rand_term(nonlocal_):
            n = int(rng.integers(1, 4))
            syms, dofs, meta = [], [], []
            used_sho = set()
            for _k in range(n):
                dof, u, kind, idx = udofs[int(rng.integers(len(udofs)))]
                dist = int(rng.integers(-2, ncell + 2)) if nonlocal_ else 0
                if kind == "spin":
                    s = str(rng.choice(["X", "Y", "Z", "sigma_+", "sigma_-", "sigma_z"]))
                elif kind == "sho":
                    if (dist % ncell, u) in used_sho:
                        continue
                    used_sho.add((dist % ncell, u))
                    s = str(rng.choice(["b", BD, "x", "p"]))
                else:
                    if (dist % ncell, u) in used_sho:
                        continue
                    used_sho.add((dist % ncell, u))
                    s = str(rng.choice([AD, "a"]))
                syms.append(s)
                dofs.append((dist, dof) if nonlocal_ else dof)
                meta.append((dist, u, kind, idx))
                if kind in ("elec", "mev") and s == AD and rng.random() < 0.6:
                    # a^dagger a pair (same site), the second DoF may differ on a multi-electron site
                    cands = [x for x in udofs if x[1] == u]
                    dof2, u2, kind2, idx2 = cands[int(rng.integers(len(cands)))]
                    syms.append("a")
                    dofs.append((dist, dof2) if nonlocal_ else dof2)
                    meta.append((dist, u2, kind2, idx2))
            if not syms:
                return None
            f = complex(float(rng.choice([-1.0, 0.5, 2.0])), float(rng.choice([0.0, 0.0, 1.0])) + 0.25)
            return Op(" ".join(syms), dofs, f), (syms, meta, f)

        loc = [t for t in (rand_term(False) for _ in range(int(rng.integers(0, 3)))) if t]
        nonloc = [t for t in (rand_term(True) for _ in range(int(rng.integers(1, 4)))) if t]
        info = dict(builder="TI1DModel", ncell=ncell, unit_cell=kinds,
                    local=[[t[1][0], [m[:2] for m in t[1][1]], [t[1][2].real, t[1][2].imag]] for t in loc],
                    nonlocal_=[[t[1][0], [m[:2] for m in t[1][1]], [t[1][2].real, t[1][2].imag]] for t in nonloc])
        run.count("ti1d:ncell=%d" % ncell)
        run.count("ti1d:cell=" + "+".join(kinds))
        D = int(np.prod(dims))
        H = np.zeros((D, D), dtype=complex)
        wraps = 0
        for i in range(ncell):
            for _op, (syms, meta, f) in loc + nonloc:
                m = np.eye(D, dtype=complex)
                for s, (dist, u, kind, idx) in zip(syms, meta):
                    cell = (i + dist) % ncell
                    if not 0 <= i + dist < ncell:
                        wraps += 1
                    m = m @ kron_sites(dims, {cell * nu + u: single(kind, s, idx)})
                H = H + f * m
        run.count("ti1d:wrapped-factors", wraps)
        try:
            model = TI1DModel(basis, [t[0] for t in loc], [t[0] for t in nonloc], ncell)
        except Exception as e:
            c.violate("ti1d:raises:" + type(e).__name__, dict(info, error=str(e)[:300]))
            continue
        exp_dofs = []
        for i in range(ncell):
            for b in basis:
                exp_dofs.append(tuple((f"cell{i}", d) for d in b.dofs))
        if [tuple(b.dofs) for b in model.basis] != exp_dofs or [b.nbas for b in model.basis] != dims:
            c.violate("ti1d:basis", dict(info, library=repr([tuple(b.dofs) for b in model.basis])))
            continue
        try:
            Hs = dense_from_model(model)
        except ValueError as e:
            run.count("ti1d:rejected-unsupported-compound")   # e.g. wrap-around put "a a^dagger" on one site
            continue
        c.ev(("ti1d", ncell, repr(info["local"]), repr(info["nonlocal_"])))
        err = maxabs(Hs - H)
        if not err <= 1e-11 * max(1.0, maxabs(H)) * (1 + len(loc) + len(nonloc)):
            c.violate("ti1d:hamiltonian" + (":wrap-around" if wraps else ""), dict(info, max_abs_err=err))


# ------------------------------------------------------------------------------------ J: Quantity
RATIO = {"meV": 27211.386245988, "eV": 27.211386245988, "cm^{-1}": 219474.63136320, "cm-1": 219474.63136320,
         "K": 315775.02480407, "a.u.": 1.0, "au": 1.0, "fs": 0.024188843265857}


def part_quantity(c, nb):
    from renormalizer.utils import Quantity
    rng, run = c.rng, c.run
    units = list(RATIO) + [u.lower() for u in RATIO]
    for _ in range(nb):
        v = float(rng.choice([-3.5, 0.0, 1e-3, 0.25, 1.0, 17.0, 1234.5]))
        u1 = units[int(rng.integers(len(units)))]
        u2 = units[int(rng.integers(len(units)))]
        info = dict(value=v, unit=u1, unit2=u2)
        r1 = RATIO.get(u1, RATIO.get({k.lower(): k for k in RATIO}.get(u1)))
        r2 = RATIO.get(u2, RATIO.get({k.lower(): k for k in RATIO}.get(u2)))
        try:
            q = Quantity(v, u1)
            c.ev(("quantity", v, u1, u2))
            au = q.as_au()
            if abs(au - v / r1) > 1e-9 * abs(v / r1):
                c.violate("quantity:as_au", dict(info, library=au, expected=v / r1))
            q2 = q.as_unit(u2)
            if q2.unit != u2 or abs(q2.value - v / r1 * r2) > 1e-9 * abs(v / r1 * r2):
                c.violate("quantity:as_unit", dict(info, library=q2.value))
            back = q2.as_unit(u1)
            if abs(back.value - v) > 8 * np.finfo(float).eps * abs(v) or abs(q2.as_au() - au) > 8 * np.finfo(float).eps * abs(au):
                c.violate("quantity:round-trip", dict(info, library=back.value))
            if u1 in ("K", "k"):
                beta = q.to_beta()
                if (v == 0 and beta != math.inf) or (v != 0 and abs(beta - r1 / v) > 1e-9 * abs(r1 / v)):
                    c.violate("quantity:to_beta", dict(info, library=beta))
            w = float(rng.choice([0.5, -2.0, 3.0]))
            p = Quantity(w, u2)
            chk = [((q + p).as_au(), au + p.as_au()), ((q - p).as_au(), au - p.as_au()), ((q * w).as_au(), au * w),
                   ((w * q).as_au(), au * w), ((q / w).as_au(), au / w), ((-q).as_au(), -au)]
            for got, exp in chk:
                if abs(got - exp) > 4 * np.finfo(float).eps * max(abs(exp), abs(au)):
                    c.violate("quantity:arithmetic", dict(info, got=got, expected=exp))
            if not (q == Quantity(v, u1)) or (q != Quantity(v, u1)) or (v != 0 and q == (q * 2)) or ((q == 0) != (v == 0)):
                c.violate("quantity:eq", info)
        except Exception as e:
            c.violate("quantity:raises:" + type(e).__name__, dict(info, error=str(e)[:200]))


# ------------------------------------------------------------------------------------ driver
def search(run, rng, quick):
    import renormalizer  # noqa: F401  (init_log runs on import)
    logging.getLogger("renormalizer").setLevel(logging.ERROR)
    c = Ctx(run, rng)
    k = 4 if quick else 40
    part_sho(c, 30 * k)
    part_sho_dvr(c, 10 * k)
    part_sine(c, 6 * k)
    part_spin(c, 60 * k)
    part_electron(c, 8 * k)
    part_misc(c)
    part_holstein(c, 8 * k)
    part_spinboson(c, 8 * k)
    part_ti1d(c, 30 * k)
    part_quantity(c, 150 * k)
    run.sample(dict(part="BasisSHO", note="symbols x^k/p^k/products against ladder matrices truncated at N+10"))
    run.sample(dict(part="builders", note="Holstein schemes 1-4, SpinBoson, TI1D against own dense assembly"))
    run.cov["evaluations"] = run.cov.get("evaluations", 0) + c.evals
    run.cov["distinct_nontrivial"] = len(c.distinct)
    run.cov["rule"] = ("one evaluation = one op_mat symbol (or one built model / one unit conversion) compared with "
                       "its independent reference; distinct by (basis parameters, symbol) resp. (builder parameters)")
