"""C17 failing-input search: Jordan-Wigner qc model vs an independent fermionic Hamiltonian, and
on-the-fly site swapping of (Mpo, Mps) pairs vs dense permutation.

Oracles (all dense NumPy, reference matrices from lib_gs.py — occupation-number fermions, own 2x2 /
oscillator matrices, own permutation matrices):

 A1  qc_model(int_to_h(h, eri)) : Mpo.todense() (flat and stacked, with / without quantum numbers)
     == sum h a+a + 1/2 sum (pq|rs) a+a+aa ; the term list multiplied out with OUR 2x2 matrices gives
     the same matrix; Hermitian when the integrals have the transposition symmetry; commutes with
     N_alpha and N_beta; Mpo bond labels are usable (apply + canonicalise keeps H|psi>).
 A2  simplify_op(word of ladder operators) == product of fermionic matrices, any length.
 A3  qc_model on arbitrary spin-orbital tensors (conserve_qn=False) == sum h1 a+a + sum h2 a+a+aa.
 B1  Mpo.try_swap_site over random adjacent-swap sequences: todense() == P H P^T (fermionic P when
     swap_jw); labels usable.
 B2  identity "sweeps" through Mps._update_mps with an OFS criterion + Mpo.try_swap_site, exactly as
     gs.single_sweep does: state == P psi, operator == P H P^T, <psi|H|psi> unchanged, DOF order of the
     two objects identical, labels usable (canonicalise keeps the state).
 B3  optimize_mps / tdvp_ps2 evolution with OFS at full bond dimension: energy = exact ground energy,
     returned state = ground state / exp(-iHt) psi up to the site permutation read from `.model`.
"""
import itertools
import time

import numpy as np
import scipy.linalg

import lib_gs as L
from lib_gs import EPS, tolist

from renormalizer.model import Model, Op, h_qc
from renormalizer.mps import Mpo, Mps
from renormalizer.mps.gs import optimize_mps
from renormalizer.mps.matrix import tensordot
from renormalizer.utils import CompressConfig, CompressCriteria, EvolveConfig, EvolveMethod
from renormalizer.utils.configs import OFS

SIG_D16 = "ofs:swap_jw:qc_model-symbols(+,-,Z):operator-sign-correction-skipped"


# ======================================================================================= helpers
def op_dense(op, dofs_order, mats=L.SPIN):
    """dense matrix of an Op on 2-level sites with OUR matrices: per site the symbols are multiplied in the
    order they appear, sites are Kronecker-multiplied in `dofs_order`"""
    per = {d: np.eye(2) for d in dofs_order}
    for s, d in zip(op.split_symbol, op.dofs):
        per[d] = per[d] @ mats[s]
    out = np.eye(1)
    for d in dofs_order:
        out = np.kron(out, per[d])
    return op.factor * out


def absmax(a):
    a = np.asarray(a)
    return float(np.abs(a).max()) if a.size else 0.0


def dense_tol(h, nterms):
    # 64 eps per accumulated term and per Kronecker factor, times the scale of the entries
    return 64 * EPS * max(nterms, 16) * 16 * max(1.0, absmax(h))


# ======================================================================================= part A1
def check_qc_dense(run, rng, n, thorough=False):
    sym = str(rng.choice(["8", "8", "4", "pair"]))
    h, eri, style = L.gen_integrals(rng, n, sym)
    if rng.random() < 0.15:
        # the same integrals in tiny units (1e-12 .. 1e-9): no integral may be treated as a numerical zero
        unit = float(10 ** rng.uniform(-12, -9))
        h, eri = h * unit, eri * unit
        style += ":tiny-unit"
    conserve = bool(rng.random() < 0.7)
    algo = str(rng.choice(["qr", "qr", "Hopcroft-Karp", "Hungarian"]))
    run.count(f"A1:n={n}"), run.count(f"A1:sym={sym}"), run.count(f"A1:style={style}")
    run.count(f"A1:conserve_qn={conserve}")
    nso = 2 * n
    href = L.fermi_h_spatial(h, eri)
    replay = dict(part="A1", n=n, sym=sym, style=style, conserve_qn=conserve, algo=algo, h=tolist(h), eri=tolist(eri))
    sh, aseri = h_qc.int_to_h(h, eri)
    basis, terms = h_qc.qc_model(sh, aseri, stacked=False, conserve_qn=conserve)
    basis_s, terms_s = h_qc.qc_model(sh, aseri, stacked=True, conserve_qn=conserve)
    tol = dense_tol(href, len(terms))
    nontrivial = len(terms) >= 2
    # (a) term list with our matrices
    dofs = list(range(nso))
    ht = sum(op_dense(t, dofs) for t in terms)
    d = absmax(ht - href)
    if d > tol:
        run.violation(f"qc_model:terms-vs-fermionic:sym={sym}", dict(replay, err=d, tol=tol))
    # every basis set is the documented 2-level site with the right labels
    for j, b in enumerate(basis):
        want = ([[0, 0], [1, 0]] if j % 2 == 0 else [[0, 0], [0, 1]]) if conserve else [[0], [0]]
        got = np.array(b.sigmaqn).reshape(2, -1).tolist()
        if list(b.dofs) != [j] or got != want:
            run.violation("qc_model:basis-labels", dict(replay, site=j, got=got, want=want, dofs=repr(b.dofs)))
    # (b) MPO
    model = Model(basis, terms)
    mpo = Mpo(model, algo=algo)
    hm = mpo.todense()
    d = absmax(hm - href)
    if d > tol:
        run.violation(f"qc_model:mpo-vs-fermionic:sym={sym}", dict(replay, err=d, tol=tol))
    # (c) stacked
    flat_s = [t for grp in terms_s for t in grp]
    if len(flat_s) != len(terms):
        run.violation("qc_model:stacked:term-count", dict(replay, flat=len(terms), stacked=len(flat_s)))
    hs = np.zeros_like(href)
    for grp in terms_s:
        if not grp:
            run.violation("qc_model:stacked:empty-group", replay)
            continue
        hs = hs + Mpo(Model(basis_s, grp)).todense()
    d = absmax(hs - href)
    if d > tol:
        run.violation(f"qc_model:stacked-vs-fermionic:sym={sym}", dict(replay, err=d, tol=tol))
    # (d) hermiticity (needs (pq|rs) = (qp|sr), present in '8' and '4')
    if sym in ("8", "4"):
        d = absmax(hm - hm.T)
        if d > tol:
            run.violation(f"qc_model:hermitian:sym={sym}", dict(replay, err=d, tol=tol))
    # (e) particle numbers
    na, nb = L.number_ops(nso)
    for name, nvec in (("alpha", na), ("beta", nb)):
        comm = hm * nvec[None, :] - nvec[:, None] * hm
        d = absmax(comm)
        if d > tol * n * 2:
            run.violation(f"qc_model:number-conservation:{name}", dict(replay, err=d, tol=tol))
    # (f) labels of the MPO usable: apply to a random sector state and canonicalise
    if conserve and n >= 1:
        nel = [int(rng.integers(0, n + 1)), int(rng.integers(0, n + 1))]
        mps = L.random_mps(model, rng, nel, 2 ** nso)
        if mps is None:
            run.count("A1:random-mps-rejected")
        else:
            psi = mps.todense().ravel()
            if tuple(int(x) for x in np.ravel(mpo.qntot)) != (0, 0):
                run.violation("qc_model:mpo-qntot-nonzero", dict(replay, qntot=np.ravel(mpo.qntot).tolist()))
            want = href @ psi
            if np.linalg.norm(want) > 1e-8:
                try:
                    new = mpo.apply(mps).canonicalise()
                    got = new.todense().ravel() * new.coeff / mps.coeff
                    d = absmax(got - want)
                    if d > 1e3 * tol:
                        run.violation("qc_model:mpo-labels:apply-canonicalise", dict(replay, nel=nel, err=d))
                except Exception as e:  # the property promises a usable operator
                    run.violation("qc_model:mpo-labels:apply-canonicalise:raises",
                                  dict(replay, nel=nel, error=repr(e)[:300]))
            run.count("A1:apply-checked")
    run.sample(dict(part="A1", n=n, sym=sym, style=style, nterms=len(terms), bond_dims=list(map(int, mpo.bond_dims))))
    return nontrivial, (n, sym, style, conserve, len(terms))


# ======================================================================================= part A2
def check_simplify_words(run, rng, nwords):
    ok = 0
    for _ in range(nwords):
        norbs = int(rng.integers(1, 7))
        length = int(rng.integers(1, 7))
        conserve = bool(rng.random() < 0.5)
        word = [(int(rng.integers(0, norbs)), bool(rng.integers(0, 2))) for _ in range(length)]
        a_ops, ad_ops = h_qc.generate_ladder_operator(norbs)
        a_ref = L.fermi_annihilators(norbs)
        ref = np.eye(2 ** norbs)
        lib = []
        for p, dag in word:
            ref = ref @ (a_ref[p].T if dag else a_ref[p])
            lib.append(ad_ops[p] if dag else a_ops[p])
        raw = Op.product(lib)
        replay = dict(part="A2", norbs=norbs, word=[(p, "a+" if d else "a") for p, d in word], conserve_qn=conserve)
        run.count(f"A2:len={length}")
        dofs = list(range(norbs))
        d0 = absmax(op_dense(raw, dofs) - ref)
        if d0 > 0:
            run.violation("generate_ladder_operator:word-vs-fermionic", dict(replay, err=d0))
            continue
        try:
            simp = h_qc.simplify_op(raw, norbs, conserve)
        except Exception as e:
            run.violation("simplify_op:raises", dict(replay, error=repr(e)[:300]))
            continue
        d1 = absmax(op_dense(simp, dofs) - ref)
        if d1 > 0:
            run.violation("simplify_op:word-vs-fermionic", dict(replay, err=d1, simplified=repr(simp)))
        # at most one Z per site and only in front
        per = {}
        for s, dof in zip(simp.split_symbol, simp.dofs):
            per.setdefault(dof, []).append(s)
        for dof, syms in per.items():
            if "Z" in syms[1:]:
                run.violation("simplify_op:Z-not-cancelled", dict(replay, simplified=repr(simp)))
        # labels: the total label equals (#a+ - #a) per spin species
        if conserve:
            want = np.zeros(2, dtype=int)
            for p, dag in word:
                want[p % 2] += 1 if dag else -1
            got = np.array(simp.qn).ravel()
            if got.tolist() != want.tolist():
                run.violation("simplify_op:qn-labels", dict(replay, got=got.tolist(), want=want.tolist()))
        if absmax(ref) > 0 and length >= 2:
            ok += 1
    return ok


# ======================================================================================= part A3
def check_qc_spinorb(run, rng):
    nso = int(rng.integers(1, 6))
    h1 = np.round(rng.normal(size=(nso, nso)), 3) * (rng.random((nso, nso)) < 0.6)
    h2 = np.round(rng.normal(size=(nso,) * 4), 3) * (rng.random((nso,) * 4) < min(0.5, 12.0 / nso ** 4))
    if not h1.any() and not h2.any():
        h1[0, 0] = 1.0
    stacked = bool(rng.random() < 0.4)
    replay = dict(part="A3", nso=nso, h1=tolist(h1), h2=tolist(h2), stacked=stacked)
    run.count(f"A3:nso={nso}")
    href = L.fermi_h_spinorb(h1, h2)
    try:
        basis, terms = h_qc.qc_model(h1, h2, stacked=stacked, conserve_qn=False)
    except Exception as e:
        run.count("A3:rejected:" + type(e).__name__)
        return False
    flat = [t for g in terms for t in g] if stacked else terms
    dofs = list(range(nso))
    ht = sum(op_dense(t, dofs) for t in flat)
    tol = dense_tol(href, len(flat))
    d = absmax(ht - href)
    if d > tol:
        run.violation("qc_model:spin-orbital-tensors:terms-vs-fermionic", dict(replay, err=d, tol=tol))
    if absmax(href) > 0:
        try:
            if stacked:
                hm = sum(Mpo(Model(basis, g)).todense() for g in terms)
            else:
                hm = Mpo(Model(basis, terms)).todense()
        except Exception as e:
            run.count("A3:mpo-rejected:" + type(e).__name__)
            return False
        d = absmax(hm - href)
        if d > tol:
            run.violation("qc_model:spin-orbital-tensors:mpo-vs-fermionic", dict(replay, err=d, tol=tol))
    return len(flat) >= 2


# ======================================================================================= swap models
def rename_sigma(terms):
    ren = {"+": "sigma_+", "-": "sigma_-", "Z": "sigma_z"}
    return [Op(" ".join(ren[s] for s in t.split_symbol), t.dofs, t.factor, t.qn_list) for t in terms]


def gen_swap_model(rng, kind):
    """returns (TModel, jw_capable, symbols)"""
    if kind in ("qc", "qc-sigma"):
        n = int(rng.choice([1, 2, 2, 3]))
        sym = "8"
        h, eri, style = L.gen_integrals(rng, n, sym, style=str(rng.choice(["dense", "sparse", "integer", "block"])))
        # with and without particle-number labels (without: every operator carries label 0)
        tm = L.qc_tmodel(h, eri, bool(rng.random() < 0.6), sym, style)
        if kind == "qc-sigma":
            tm.lib_terms = rename_sigma(tm.lib_terms)
            tm.label = "qc-sigma"
            tm.extra["symbols"] = "sigma_+,sigma_-,sigma_z"
        else:
            tm.extra["symbols"] = "+,-,Z"
        return tm, True
    if kind == "one-term":
        # an operator that is exactly ONE product term with a prefactor (the single-row path of the constructor)
        n = int(rng.integers(2, 5))
        sites = [L.Site("spin", f"s{i}", 2, [(0,), (0,)]) for i in range(n)]
        k = int(rng.integers(1, n + 1))
        on = sorted(int(x) for x in rng.choice(n, size=k, replace=False))
        if rng.random() < 0.6 and (n - 1) not in on:
            on[-1] = n - 1                         # usually the last site takes part
        term = (float(np.round(rng.uniform(0.3, 2.5) * rng.choice([-1, 1]), 3)),
                [(i, str(rng.choice(["sigma_x", "sigma_z"]))) for i in sorted(set(on))])
        return L.TModel(sites, [term], "one-term"), False
    if kind == "spin":
        return L.gen_spin_model(rng, conserve=False), False
    if kind == "spin-u1":
        return L.gen_spin_model(rng, conserve=True), False
    if kind == "eph":
        return L.gen_eph_model(rng, interleave=bool(rng.random() < 0.7)), False
    return L.gen_eph_model(rng, nmol=3, two_qn=True), False


def pick_sector(tm, rng, min_dim=2):
    secs = [s for s in tm.sectors() if s[1] >= min_dim] or tm.sectors()
    k = int(rng.integers(0, len(secs)))
    return np.array(secs[k][0], dtype=int), secs[k][1]


def jw_class(tm):
    return tm.label == "qc"


_JW_PROBE = {}


def jw_effective(tm):
    """does Mpo.try_swap_site(swap_jw=True) change the operator of this model class by the fermionic
    exchange?  'qc-sigma' (sigma_+ / sigma_- / sigma_z symbols): yes.  'qc' (the symbols qc_model emits):
    measured once on a two-orbital model — on the pinned tree it does not (finding D16)."""
    if tm.label == "qc-sigma":
        return True
    if tm.label != "qc":
        return False
    if "qc" not in _JW_PROBE:
        h = np.array([[0.3, 0.7], [0.7, -0.2]])
        eri = L.symmetrise_eri(np.arange(16, dtype=float).reshape(2, 2, 2, 2) / 10 + 0.1, "8")
        p = L.qc_tmodel(h, eri, True)
        mpo = Mpo(p.fresh_model(), algo="Hopcroft-Karp")
        nb = list(mpo.model.basis)
        nb[1], nb[2] = nb[2], nb[1]
        mpo.try_swap_site(Model(nb, mpo.model.ham_terms), True)
        F = L.swap_matrix([2] * 4, 1, True)
        _JW_PROBE["qc"] = absmax(mpo.todense() - F @ p.dense_h() @ F.T) < 1e-9
    return _JW_PROBE["qc"]


def n_lib_terms(mpo):
    try:
        return len(mpo.model.ham_terms)
    except Exception:
        return -1


def swap_exception_signature(e, mpo, algo0, jw_eff):
    """stable signature for an exception raised by Mpo.try_swap_site"""
    import traceback
    tb = traceback.extract_tb(e.__traceback__)
    line = tb[-1].line or ""
    if not any(fr.name == "try_swap_site" for fr in tb):
        return None
    if n_lib_terms(mpo) == 1:
        return "try_swap_site:single-term-operator:raises"
    if isinstance(e, AssertionError) and "len(new_out_ops3)" in line:
        if jw_eff and algo0 != "qr":
            return "try_swap_site:swap_jw:AssertionError:bond-operator-count"
        if algo0 == "qr" and not jw_eff:
            return "try_swap_site:mpo-built-with-qr:AssertionError:bond-operator-count"
        if algo0 == "qr" and jw_eff:
            return "try_swap_site:swap_jw+mpo-built-with-qr:AssertionError:bond-operator-count"
        return "try_swap_site:graph-built-mpo:AssertionError:bond-operator-count"
    if isinstance(e, AssertionError) and "len(o) > 0" in line and algo0 == "qr":
        return "try_swap_site:mpo-built-with-qr:AssertionError:empty-bond-operator"
    return f"try_swap_site:raises:{type(e).__name__}:jw={jw_eff}"


def pick_algo0(rng, jw_eff):
    if jw_eff:
        return "Hopcroft-Karp"
    return str(rng.choice(["qr", "Hopcroft-Karp", "Hopcroft-Karp"]))


def arrays_qn(mpo):
    """after try_swap_site one entry of mpo.qn is a Python list of arrays (observation, counted); the
    label VALUES are what we want to test, so normalise the container type"""
    # (the container type is no longer normalised here: an operator that cannot be applied after a swap is a violation)
    return any(not isinstance(q, np.ndarray) for q in mpo.qn)


def probe_swap_sequences(run):
    """two fixed, minimal swap sequences (found by the random search and shrunk) so that the two assertion findings of
    Mpo.try_swap_site are reported on every run and with a small replay, not only when the random sequences hit them"""
    # (1) default ("qr") MPO of  Z0 Z3 + Z0 + Z1 + Z2 + Z3 ; exchange (1,2) then (0,1)
    sites = [L.Site("spin", f"s{i}", 2, [(0,), (0,)]) for i in range(4)]
    terms = [(1.0, [(0, "sigma_z"), (3, "sigma_z")])] + [(1.0, [(i, "sigma_z")]) for i in range(4)]
    tm1 = L.TModel(sites, terms, "spin")
    # (2) Jordan-Wigner model of 3 orbitals with (02|02) = (02|22) = 1 ; fermionic exchange (1,2) then (0,1)
    eri = np.zeros((3,) * 4)
    for (p, q, r, t) in [(0, 2, 0, 2), (0, 2, 2, 2)]:
        for idx in [(p, q, r, t), (q, p, r, t), (p, q, t, r), (q, p, t, r), (r, t, p, q), (t, r, p, q), (r, t, q, p), (t, r, q, p)]:
            eri[idx] = 1.0
    tm2 = L.qc_tmodel(np.zeros((3, 3)), eri, True, "8", "probe")
    tm2.extra["symbols"] = "+,-,Z"
    if not jw_effective(tm2):
        tm2.lib_terms = rename_sigma(tm2.lib_terms)
        tm2.label = "qc-sigma"
        tm2.extra["symbols"] = "sigma_+,sigma_-,sigma_z"
    # (3) qc_model output for 2 orbitals as it is, one fermionic exchange (1,2): the operator must change by the
    #     fermionic swap (the state side of OFS, Mps._update_mps, applies the sign)
    h3 = np.array([[0.3, 0.7], [0.7, -0.2]])
    eri3 = L.symmetrise_eri(np.arange(16, dtype=float).reshape(2, 2, 2, 2) / 10 + 0.1, "8")
    tm3 = L.qc_tmodel(h3, eri3, True, "8", "probe")
    tm3.extra["symbols"] = "+,-,Z"
    for tm, algo0, jw, seq in ((tm1, "qr", False, [1, 0]), (tm2, "Hopcroft-Karp", True, [1, 0]), (tm3, "Hopcroft-Karp", True, [1])):
        h0 = tm.dense_h()
        mpo = Mpo(tm.fresh_model(), algo=algo0)
        jw_eff = jw and jw_effective(tm)
        F = np.eye(tm.dim)
        replay = dict(part="B1-probe", model=tm.describe(), jw=jw, algo0=algo0, seq=seq)
        ok = True
        for i in seq:
            F = L.swap_matrix(tm.dims, i, jw) @ F
            nb = list(mpo.model.basis)
            nb[i], nb[i + 1] = nb[i + 1], nb[i]
            try:
                mpo.try_swap_site(Model(nb, mpo.model.ham_terms), jw)
            except Exception as e:
                run.violation(swap_exception_signature(e, mpo, algo0, jw_eff) or "try_swap_site:raises",
                              dict(replay, error=repr(e)[:300], failing_swap=i))
                ok = False
                break
        if ok:
            hn = mpo.todense()
            d = absmax(hn - F @ h0 @ F.T)
            if d > dense_tol(h0, 64) * 8:
                Pp = np.eye(tm.dim)
                for i in seq:
                    Pp = L.swap_matrix(tm.dims, i, False) @ Pp
                if jw and jw_class(tm) and absmax(hn - Pp @ h0 @ Pp.T) <= dense_tol(h0, 64) * 8:
                    run.violation(SIG_D16, dict(replay, err_operator_vs_fermionic_swap=d, err_operator_vs_plain_swap=absmax(hn - Pp @ h0 @ Pp.T),
                                                where="Mpo.try_swap_site(new_model, swap_jw=True) on Mpo(Model(*qc_model(...)))"))
                else:
                    run.violation(f"try_swap_site:dense:jw={jw}:probe", dict(replay, err=d))
        run.count("B1:probe")


# ======================================================================================= part B1
def check_mpo_swaps(run, rng, kind):
    tm, jw_ok = gen_swap_model(rng, kind)
    jw = bool(jw_ok and rng.random() < 0.5)
    n = len(tm.sites)
    if n < 2:
        return False, None
    h0 = tm.dense_h()
    model = tm.fresh_model()
    jw_eff = jw and jw_effective(tm)
    algo0 = pick_algo0(rng, jw_eff)
    mpo = Mpo(model, algo=algo0)
    run.count(f"B1:algo0={algo0}")
    nsteps = int(rng.integers(1, 2 * n + 2))
    order = list(range(n))
    seq = []
    F = np.eye(tm.dim)      # accumulated transformation in the intended (jw or plain) sense
    Pplain = np.eye(tm.dim)
    run.count(f"B1:kind={kind}"), run.count(f"B1:jw={jw}")
    replay = dict(part="B1", model=tm.describe(), jw=jw, algo0=algo0)
    tol = dense_tol(h0, 64) * 8
    fired = False
    for step in range(nsteps):
        i = int(rng.integers(0, n - 1))
        seq.append(i)
        dims = [tm.dims[k] for k in order]
        F = L.swap_matrix(dims, i, jw) @ F
        Pplain = L.swap_matrix(dims, i, False) @ Pplain
        order[i], order[i + 1] = order[i + 1], order[i]
        nb = list(mpo.model.basis)
        nb[i], nb[i + 1] = nb[i + 1], nb[i]
        newm = Model(nb, mpo.model.ham_terms)
        algo = str(rng.choice(["Hopcroft-Karp", "Hopcroft-Karp", "Hungarian"]))
        try:
            mpo.try_swap_site(newm, jw, algo=algo)
        except Exception as e:
            sig = swap_exception_signature(e, mpo, algo0, jw_eff) or "try_swap_site:raises"
            run.violation(sig, dict(replay, seq=seq, error=repr(e)[:300]))
            return True, None
        hn = mpo.todense()
        want = F @ h0 @ F.T
        d = absmax(hn - want)
        if d > tol:
            plain = Pplain @ h0 @ Pplain.T
            if jw and jw_class(tm) and absmax(hn - plain) <= tol:
                run.violation(SIG_D16, dict(replay, seq=seq, err_vs_fermionic_swap=d,
                                            err_vs_plain_swap=absmax(hn - plain), where="Mpo.try_swap_site"))
            else:
                run.violation(f"try_swap_site:dense:jw={jw}:{'qc' if jw_ok else 'generic'}",
                              dict(replay, seq=seq, err=d, tol=tol))
            fired = True
            break
        if [b.dofs for b in mpo.model.basis] != [tm.sites[k].basis().dofs for k in order]:
            run.violation("try_swap_site:model-order", dict(replay, seq=seq))
            fired = True
            break
    # labels of the swapped MPO: apply to a sector state (in the new order) and canonicalise
    if not fired:
        qntot, sdim = pick_sector(tm, rng)
        mps = L.random_mps(mpo.model, rng, qntot, tm.dim)
        if mps is not None:
            psi = mps.todense().ravel()
            want = (F @ h0 @ F.T) @ psi
            if np.linalg.norm(want) > 1e-8:
                if arrays_qn(mpo):
                    run.count("B1:observation:mpo.qn-entry-is-list-after-swap")
                try:
                    new = mpo.apply(mps).canonicalise()
                    got = new.todense().ravel() * new.coeff / mps.coeff
                    d = absmax(got - want)
                    if d > 1e3 * tol:
                        run.violation(f"try_swap_site:labels:apply-canonicalise:jw={jw}", dict(replay, seq=seq, err=d))
                except Exception as e:
                    run.violation(f"try_swap_site:labels:apply-canonicalise:raises:jw={jw}",
                                  dict(replay, seq=seq, error=repr(e)[:300]))
                run.count("B1:labels-checked")
    run.sample(dict(part="B1", kind=kind, jw=jw, seq=seq, dims=tm.dims))
    return True, (kind, jw, tuple(seq), tuple(tm.dims))


# ======================================================================================= part B2
CRITS = [OFS.ofs_s, OFS.ofs_d, OFS.ofs_ds]


def sweep_steps(mps):
    """the (cidx) visited by one 2-site sweep of gs.single_sweep from the current centre"""
    n = mps.site_num
    res = []
    for imps in mps.iter_idx_list(full=True):
        if (mps.to_right and imps == n - 1) or ((not mps.to_right) and imps == 0):
            break
        res.append([imps, imps + 1] if mps.to_right else [imps - 1, imps])
    return res


def check_pair_sweeps(run, rng, kind):
    tm, jw_ok = gen_swap_model(rng, kind)
    n = len(tm.sites)
    if n < 2:
        return False, None
    jw = bool(jw_ok and rng.random() < 0.5)
    truncate = bool(rng.random() < 0.3)
    cplx = bool(rng.random() < 0.25)
    h0 = tm.dense_h()
    model = tm.fresh_model()
    jw_eff = jw and jw_effective(tm)
    algo0 = pick_algo0(rng, jw_eff)
    mpo = Mpo(model, algo=algo0)
    run.count(f"B2:algo0={algo0}")
    qntot, sdim = pick_sector(tm, rng)
    mps = L.random_mps(model, rng, qntot, tm.dim)
    if mps is None:
        run.count("B2:random-mps-rejected")
        return False, None
    if cplx:
        other = L.random_mps(model, rng, qntot, tm.dim)
        if other is None:
            cplx = False
        else:
            mps = mps.to_complex().add(other.scale(1j * float(rng.uniform(0.3, 1.0))))
            mps.canonicalise()
    mps.normalize("mps_only")
    psi0 = mps.todense().ravel().copy()
    e0 = float(np.real(psi0.conj() @ h0 @ psi0))
    m = int(rng.integers(1, 4)) if truncate else 4 * tm.dim
    crit_mode = str(rng.choice(["s", "d", "ds", "mixed"]))
    percent = float(rng.choice([0, 0, 0.3]))
    mps.ensure_right_canonical() if rng.random() < 0.5 else mps.ensure_left_canonical()
    run.count(f"B2:kind={kind}"), run.count(f"B2:jw={jw}"), run.count(f"B2:truncate={truncate}")
    run.count(f"B2:crit={crit_mode}")
    replay = dict(part="B2", model=tm.describe(), jw=jw, truncate=truncate, m=m, crit=crit_mode, complex=cplx, algo0=algo0,
                  qntot=qntot.tolist(), psi0=tolist(psi0), percent=percent)
    order = list(range(n))
    F = np.eye(tm.dim)
    Pplain = np.eye(tm.dim)
    log = []
    nsweeps = int(rng.integers(1, 4))
    tolH = dense_tol(h0, 64) * 8
    tolS = 1e-10
    nswaps = 0
    exact_state = True
    for sw in range(nsweeps):
        for cidx in sweep_steps(mps):
            crit = {"s": OFS.ofs_s, "d": OFS.ofs_d, "ds": OFS.ofs_ds}.get(crit_mode) or CRITS[int(rng.integers(0, 3))]
            mps.compress_config = CompressConfig(CompressCriteria.fixed, max_bonddim=m, ofs=crit, ofs_swap_jw=jw)
            c = tensordot(mps[cidx[0]], mps[cidx[1]], axes=1)
            qnl, qnr, _ = mps._get_big_qn(cidx)
            before = [b.dofs for b in mps.model.basis]
            try:
                mps._update_mps(c, cidx, qnl, qnr, percent)
            except Exception as e:
                run.violation(f"ofs-step:_update_mps:raises:{type(e).__name__}:jw={jw}",
                              dict(replay, log=log, cidx=cidx, error=repr(e)[:300]))
                return True, None
            try:
                mpo.try_swap_site(mps.model, jw)
            except Exception as e:
                run.violation(swap_exception_signature(e, mpo, algo0, jw_eff) or "try_swap_site:raises",
                              dict(replay, log=log, cidx=cidx, algo0=algo0, error=repr(e)[:300]))
                return True, None
            after = [b.dofs for b in mps.model.basis]
            swapped = before != after
            log.append((cidx[0], crit.name, bool(swapped)))
            if swapped:
                nswaps += 1
                i = cidx[0]
                dims = [tm.dims[k] for k in order]
                F = L.swap_matrix(dims, i, jw) @ F
                Pplain = L.swap_matrix(dims, i, False) @ Pplain
                order[i], order[i + 1] = order[i + 1], order[i]
                want_after = list(before)
                want_after[i], want_after[i + 1] = want_after[i + 1], want_after[i]
                if after != want_after:
                    run.violation("ofs-step:model-order:not-adjacent-exchange", dict(replay, log=log))
                    return True, None
            if [b.dofs for b in mpo.model.basis] != after:
                run.violation("ofs-step:mpo-mps-order-differ", dict(replay, log=log))
                return True, None
            # operator
            hn = mpo.todense()
            d = absmax(hn - F @ h0 @ F.T)
            if d > tolH:
                plain = Pplain @ h0 @ Pplain.T
                if jw and jw_class(tm) and absmax(hn - plain) <= tolH:
                    psin = mps.todense().ravel()
                    run.violation(SIG_D16, dict(replay, log=log, err_operator_vs_fermionic_swap=d,
                                                err_operator_vs_plain_swap=absmax(hn - plain),
                                                state_follows_fermionic_swap=bool(truncate or absmax(psin - F @ psi0) < 1e-8),
                                                energy_before=e0,
                                                energy_after=float(np.real(psin.conj() @ hn @ psin)),
                                                where="Mps._update_mps + Mpo.try_swap_site"))
                else:
                    run.violation(f"ofs-step:operator:jw={jw}", dict(replay, log=log, err=d, tol=tolH))
                return True, None
            if not truncate:
                psin = mps.todense().ravel()
                d = absmax(psin - F @ psi0)
                if d > tolS:
                    run.violation(f"ofs-step:state:jw={jw}:swapped={swapped}", dict(replay, log=log, err=d, tol=tolS))
                    return True, None
        mps._switch_direction()
    if not truncate:
        # energy through the library's own contraction
        e1 = float(np.real(mps.expectation(mpo)))
        if abs(e1 - e0) > 1e-9 * max(1.0, absmax(h0)) * tm.dim:
            run.violation(f"ofs-sequence:energy:jw={jw}", dict(replay, log=log, e0=e0, e1=e1))
        # labels of the state usable
        try:
            m2 = mps.copy()
            m2.compress_config = CompressConfig(CompressCriteria.fixed, max_bonddim=4 * tm.dim)
            m2.canonicalise()
            d = absmax(m2.todense().ravel() - F @ psi0)
            if d > 1e-9:
                run.violation(f"ofs-sequence:state-labels:canonicalise:jw={jw}", dict(replay, log=log, err=d))
        except Exception as e:
            run.violation(f"ofs-sequence:state-labels:canonicalise:raises:jw={jw}", dict(replay, log=log, error=repr(e)[:300]))
        # the state is still in the sector (in the new site order)
        mask = tm.sector_mask(qntot, order)
        leak = absmax(mps.todense().ravel()[~mask])
        if leak > 1e-10:
            run.violation(f"ofs-sequence:sector-leak:jw={jw}", dict(replay, log=log, leak=leak))
    run.count("B2:swaps", nswaps), run.count("B2:steps", len(log))
    run.sample(dict(part="B2", kind=kind, jw=jw, dims=tm.dims, log=log[:12], truncate=truncate))
    return nswaps > 0, (kind, jw, truncate, tuple(tm.dims), tuple(l[2] for l in log))


# ======================================================================================= part B3
def ofs_procedure(ms, percents, crit, jw):
    return [[CompressConfig(CompressCriteria.fixed, max_bonddim=m, ofs=crit, ofs_swap_jw=jw), p]
            for m, p in zip(ms, percents)]


def order_of(model, tm):
    dof2idx = {tuple(s.basis().dofs): k for k, s in enumerate(tm.sites)}
    return [dof2idx[tuple(b.dofs)] for b in model.basis]


def check_gs_with_ofs(run, rng, kind):
    tm, jw_ok = gen_swap_model(rng, kind)
    n = len(tm.sites)
    if n < 3:
        return False, None
    jw = bool(jw_ok and rng.random() < 0.5)
    crit = CRITS[int(rng.integers(0, 3))]
    h0 = tm.dense_h()
    qntot, sdim = pick_sector(tm, rng, 3)
    mask = tm.sector_mask(qntot)
    w, v = np.linalg.eigh(h0[np.ix_(mask, mask)])
    gap = w[1] - w[0] if len(w) > 1 else 1.0
    model = tm.fresh_model()
    jw_eff = jw and jw_effective(tm)
    algo0 = pick_algo0(rng, jw_eff)
    mpo = Mpo(model, algo=algo0)
    mps = L.random_mps(model, rng, qntot, tm.dim)
    if mps is None:
        run.count("B3:random-mps-rejected")
        return False, None
    M = 4 * tm.dim
    # short schedules too: the site order may then still change during the LAST sweep, after the optimiser has taken the
    # snapshot it returns
    nsw = int(rng.choice([2, 3, 5]))
    mps.optimize_config.procedure = ofs_procedure([M] * nsw, [0.3, 0.1, 0, 0, 0][:nsw] if nsw > 2 else [0.2, 0], crit, jw)
    run.count(f"B3:gs:sweeps={nsw}")
    mps.optimize_config.method = "2site"
    mps.optimize_config.algo = str(rng.choice(["direct", "davidson"]))
    L.seed_legacy(rng)
    run.count(f"B3:gs:kind={kind}"), run.count(f"B3:gs:jw={jw}")
    replay = dict(part="B3-gs", model=tm.describe(), jw=jw, crit=crit.name, qntot=qntot.tolist(), algo0=algo0)
    try:
        energies, res = optimize_mps(mps, mpo)
    except Exception as e:
        sig = swap_exception_signature(e, mpo, algo0, jw_eff) or f"optimize_mps+ofs:raises:{type(e).__name__}:jw={jw}"
        run.violation(sig, dict(replay, error=repr(e)[:300], where="optimize_mps"))
        return True, None
    scale = max(1.0, absmax(h0))
    emin = float(np.min(energies))
    if emin < w[0] - 1e-8 * scale:
        run.violation(f"optimize_mps+ofs:below-exact:jw={jw}", dict(replay, energies=list(map(float, energies)), exact=float(w[0])))
    elif abs(emin - w[0]) > 1e-7 * scale and nsw == 5:
        run.violation(f"optimize_mps+ofs:not-converged-at-full-bond:jw={jw}",
                      dict(replay, energies=list(map(float, energies)), exact=float(w[0])))
    order = order_of(res.model, tm)
    swapped = order != list(range(n))
    run.count(f"B3:gs:reordered={swapped}")
    # the operator the optimiser ended with is the permuted one
    order_mpo = order_of(mpo.model, tm)
    Fm = L.perm_matrix(tm.dims, order_mpo, fermi=jw)
    tolH = dense_tol(h0, 64) * 8
    hn = mpo.todense()
    d = absmax(hn - Fm @ h0 @ Fm.T)
    if d > tolH:
        Pm = L.perm_matrix(tm.dims, order_mpo, fermi=False)
        if jw and jw_class(tm) and absmax(hn - Pm @ h0 @ Pm.T) <= tolH:
            run.violation(SIG_D16, dict(replay, where="optimize_mps", order=order_mpo, err_operator_vs_fermionic=d))
        else:
            run.violation(f"optimize_mps+ofs:final-operator:jw={jw}", dict(replay, order=order_mpo, err=d))
    elif gap > 1e-4 * scale and abs(emin - w[0]) <= 1e-7 * scale:
        # returned state = ground state in the site order of its own model
        Fr = L.perm_matrix(tm.dims, order, fermi=jw)
        gs = np.zeros(tm.dim)
        gs[mask] = v[:, 0]
        want = Fr @ gs
        got = res.todense().ravel()
        ov = abs(float(want @ got))
        if abs(np.linalg.norm(got) - 1) > 1e-8:
            run.violation(f"optimize_mps+ofs:returned-state-norm:jw={jw}", dict(replay, norm=float(np.linalg.norm(got))))
        elif 1 - ov > 1e-5 / min(1.0, gap / scale):
            run.violation(f"optimize_mps+ofs:returned-state:jw={jw}", dict(replay, order=order, overlap=ov, gap=float(gap)))
    # whatever was reached: the returned state, read in the site order of ITS OWN model, must carry the energy that was
    # reported for it (its model and its tensors belong together)
    if not jw:
        try:
            e_own = float(np.real(res.expectation(Mpo(res.model))))
            e_last = float(np.atleast_1d(energies[-1])[0]) if np.ndim(energies[-1]) else float(energies[-1])
            if abs(e_own - e_last) > 1e-6 * scale and abs(emin - w[0]) <= 1e-7 * scale:
                run.violation("optimize_mps+ofs:returned-state:energy-in-own-site-order-differs-from-reported",
                              dict(replay, order=order, energy_in_own_order=e_own, reported=e_last, exact=float(w[0])))
        except Exception as e:  # noqa
            run.count("B3:gs:own-order-energy-raised:" + type(e).__name__)
    run.sample(dict(part="B3-gs", kind=kind, jw=jw, order=order, e=emin, exact=float(w[0])))
    return True, ("gs", kind, jw, crit.name, tuple(order))


def check_evolve_with_ofs(run, rng, kind):
    tm, jw_ok = gen_swap_model(rng, kind)
    n = len(tm.sites)
    if n < 3:
        return False, None
    jw = bool(jw_ok and rng.random() < 0.5)
    crit = CRITS[int(rng.integers(0, 3))]
    h0 = tm.dense_h()
    qntot, sdim = pick_sector(tm, rng, 3)
    model = tm.fresh_model()
    jw_eff = jw and jw_effective(tm)
    algo0 = pick_algo0(rng, jw_eff)
    mpo = Mpo(model, algo=algo0)
    mps = L.random_mps(model, rng, qntot, tm.dim)
    if mps is None:
        run.count("B3:random-mps-rejected")
        return False, None
    mps.normalize("mps_only")
    psi0 = mps.todense().ravel().copy() * mps.coeff
    dt = float(rng.uniform(0.05, 0.3)) / max(1.0, np.linalg.norm(h0, 2))
    nstep = int(rng.integers(1, 4))
    mps.compress_config = CompressConfig(CompressCriteria.fixed, max_bonddim=4 * tm.dim, ofs=crit, ofs_swap_jw=jw)
    mps.evolve_config = EvolveConfig(EvolveMethod.tdvp_ps2)
    run.count(f"B3:evolve:kind={kind}"), run.count(f"B3:evolve:jw={jw}")
    replay = dict(part="B3-evolve", model=tm.describe(), jw=jw, crit=crit.name, qntot=qntot.tolist(), dt=dt, nstep=nstep,
                  psi0=tolist(psi0), algo0=algo0)
    cur = mps
    try:
        for _ in range(nstep):
            cur = cur.evolve(mpo, dt)
    except Exception as e:
        import traceback
        sig = swap_exception_signature(e, mpo, algo0, jw_eff) or f"evolve+ofs:raises:{type(e).__name__}:jw={jw}"
        run.violation(sig, dict(replay, error=repr(e)[:300], where="Mps.evolve(tdvp_ps2)",
                                tb=[f"{fr.name}:{fr.line}" for fr in traceback.extract_tb(e.__traceback__)[-3:]]))
        return True, None
    order = order_of(cur.model, tm)
    order_mpo = order_of(mpo.model, tm)
    run.count(f"B3:evolve:reordered={order != list(range(n))}")
    tolH = dense_tol(h0, 64) * 8
    Fm = L.perm_matrix(tm.dims, order_mpo, fermi=jw)
    hn = mpo.todense()
    d = absmax(hn - Fm @ h0 @ Fm.T)
    if d > tolH:
        Pm = L.perm_matrix(tm.dims, order_mpo, fermi=False)
        if jw and jw_class(tm) and absmax(hn - Pm @ h0 @ Pm.T) <= tolH:
            run.violation(SIG_D16, dict(replay, where="Mps.evolve(tdvp_ps2)", order=order_mpo, err_operator_vs_fermionic=d))
        else:
            run.violation(f"evolve+ofs:final-operator:jw={jw}", dict(replay, order=order_mpo, err=d))
        return True, None
    if order != order_mpo:
        run.violation("evolve+ofs:mpo-mps-order-differ", dict(replay, order=order, order_mpo=order_mpo))
        return True, None
    want = L.perm_matrix(tm.dims, order, fermi=jw) @ (scipy.linalg.expm(-1j * dt * nstep * h0) @ psi0)
    got = cur.todense().ravel() * cur.coeff
    d = float(np.linalg.norm(got - want))
    # full bond dimension: every local step is the exact propagator; what is left is the Krylov tolerance
    if d > 1e-6:
        run.violation(f"evolve+ofs:state:jw={jw}", dict(replay, order=order, err=d))
    run.sample(dict(part="B3-evolve", kind=kind, jw=jw, order=order, err=d))
    return True, ("ev", kind, jw, crit.name, tuple(order))


# ======================================================================================= driver
def search(run, rng, quick):
    t0 = time.time()
    distinct = set()
    evals = 0

    def note(res):
        nonlocal evals
        evals += 1
        nontrivial, key = res
        if nontrivial and key is not None:
            distinct.add(key)

    # A1: integrals -> dense
    sizes = [1, 2, 2, 2, 3, 3, 3] if quick else [1, 1, 2, 2, 2, 2, 3, 3, 3, 3, 3, 3, 4, 4, 4]
    reps = 5 if quick else 10
    for _ in range(reps):
        for n in sizes:
            note(check_qc_dense(run, rng, n))
    # A2: words
    k = check_simplify_words(run, rng, 400 if quick else 3000)
    evals += 400 if quick else 3000
    run.count("A2:nontrivial-words", k)
    # A3
    for _ in range(60 if quick else 400):
        if check_qc_spinorb(run, rng):
            distinct.add(("A3", evals))
        evals += 1
    # B1 / B2 / B3
    kinds = ["qc", "qc", "qc-sigma", "qc-sigma", "spin", "spin-u1", "eph", "eph", "eph-2qn", "one-term"]
    probe_swap_sequences(run)
    evals += 3
    nb1 = 90 if quick else 700
    for it in range(nb1):
        note(check_mpo_swaps(run, rng, kinds[it % len(kinds)]))
    nb2 = 108 if quick else 900
    for it in range(nb2):
        note(check_pair_sweeps(run, rng, kinds[it % len(kinds)]))
    nb3 = 36 if quick else 200
    kinds3 = [k_ for k_ in kinds if k_ != "one-term"]       # a single product term has a massively degenerate spectrum
    for it in range(nb3):
        note(check_gs_with_ofs(run, rng, kinds3[it % len(kinds3)]))
        note(check_evolve_with_ofs(run, rng, kinds3[(it + 4) % len(kinds3)]))

    run.cov["evaluations"] = run.cov.get("evaluations", 0) + evals
    run.cov["distinct_nontrivial"] = len(distinct) + k
    run.cov["rule"] = ("distinct = different (size, symmetry class, style, term count) for integral cases, different "
                       "(model kind, jw, swap sequence / decision log, local dimensions) for swap cases; non-trivial = "
                       ">= 2 Hamiltonian terms, a non-vanishing word of length >= 2, at least one step/ swap performed")
    run.cov["wall_search_s"] = round(time.time() - t0, 1)
