"""Shared machinery of every check: Lean build + audit (L1), Lean driver (L2), evidence,
known findings, violation reporting.  Runs under /venv/bin/python with PYTHONPATH=/repo."""
import fcntl
import hashlib
import json
import os
import re
import subprocess
import sys
import time

VERIF = os.path.dirname(os.path.dirname(os.path.abspath(__file__)))
LEAN = os.path.join(VERIF, "lean")
REPO = os.environ.get("RENO_REPO", "/repo")
EVID = os.path.join(VERIF, "evidence")
REPLAY = os.path.join(VERIF, "replays")
ALLOWED_AXIOMS = {"propext", "Classical.choice", "Quot.sound"}
FORBIDDEN = re.compile(r"\bsorry\b|\badmit\b|^\s*axiom\s|native_decide|bv_decide|implemented_by|\bunsafe\s|maxHeartbeats\s+0\b", re.M)

TRUSTED_BASE = [
    "Lean 4.33.0 kernel; Mathlib v4.33.0 as compiled; axioms propext, Classical.choice, Quot.sound only (audited every run)",
    "Lean compiler/interpreter for running model definitions in the correspondence check",
    "hand-written model is tied to /repo only through the correspondence check of this run",
    "NumPy/SciPy dense linear algebra as oracle of the failing-input search",
]


class Infra(Exception):
    """toolchain / harness failure: exit 2, never a VIOLATION"""


def seed():
    try:
        return int(os.environ.get("VERIF_SEED", "0"))
    except ValueError:
        return 0


def tier(default="quick"):
    return os.environ.get("VERIF_TIER", default)


# ------------------------------------------------------------------------------------ L1
def _strip_comments(src):
    # remove block comments (nested not handled beyond one level) and line comments
    out = re.sub(r"/-.*?-/", "", src, flags=re.S)
    out = re.sub(r"--.*", "", out)
    return out


def lean_sources():
    res = []
    for root, _, files in os.walk(LEAN):
        if ".lake" in root:
            continue
        for f in files:
            if f.endswith(".lean"):
                res.append(os.path.join(root, f))
    return sorted(res)


def grep_forbidden():
    hits = []
    for p in lean_sources():
        txt = _strip_comments(open(p).read())
        for m in FORBIDDEN.finditer(txt):
            hits.append((os.path.relpath(p, LEAN), m.group(0).strip()))
    return hits


def lake_build(targets=None, timeout=3000):
    """Incremental build under a lock (checks may run concurrently). Returns (ok, log)."""
    lock = open(os.path.join(LEAN, ".build.lock"), "w")
    fcntl.flock(lock, fcntl.LOCK_EX)
    try:
        cmd = ["lake", "build"] + (targets or [])
        p = subprocess.run(cmd, cwd=LEAN, capture_output=True, text=True, timeout=timeout)
        return p.returncode == 0, p.stdout + p.stderr
    finally:
        fcntl.flock(lock, fcntl.LOCK_UN)
        lock.close()


def theorems_in(module_rel):
    """names of theorems declared in a Lean file (with their namespace prefix)"""
    path = os.path.join(LEAN, module_rel)
    src = _strip_comments(open(path).read())
    ns = []
    names = []
    for line in src.splitlines():
        m = re.match(r"\s*namespace\s+(\S+)", line)
        if m:
            ns.append(m.group(1))
            continue
        m = re.match(r"\s*end\s+(\S+)", line)
        if m and ns and ns[-1] == m.group(1):
            ns.pop()
            continue
        m = re.match(r"\s*(?:private\s+|protected\s+)?(?:theorem|lemma)\s+(\S+)", line)
        if m and not line.strip().startswith("private"):
            names.append(".".join(ns + [m.group(1)]))
    n_examples = len(re.findall(r"^\s*example\b", src, flags=re.M))
    return names, n_examples


def audit(modules, extra_imports=()):
    """`#print axioms` on every theorem of the given module files. Returns dict with
    obligations, discharged, bad (name -> axioms), examples."""
    names = []
    examples = 0
    imports = []
    for rel in modules:
        t, e = theorems_in(rel)
        names += t
        examples += e
        imports.append(rel[:-5].replace("/", "."))
    os.makedirs(os.path.join(LEAN, ".audit"), exist_ok=True)
    h = hashlib.sha1(("|".join(modules)).encode()).hexdigest()[:10]
    fn = os.path.join(LEAN, ".audit", f"audit_{h}_{os.getpid()}.lean")
    with open(fn, "w") as f:
        for i in list(imports) + list(extra_imports):
            f.write(f"import {i}\n")
        for n in names:
            f.write(f"#print axioms {n}\n")
    try:
        p = subprocess.run(["lake", "env", "lean", fn], cwd=LEAN, capture_output=True, text=True, timeout=1800)
    finally:
        try:
            os.remove(fn)
        except OSError:
            pass
    out = p.stdout + p.stderr
    res = {}
    # outputs look like: 'name' depends on axioms: [a, b]   or   'name' does not depend on any axioms
    for m in re.finditer(r"^'(\S+)' depends on axioms: \[([^\]]*)\]", out, flags=re.S | re.M):
        res[m.group(1)] = {a.strip() for a in m.group(2).replace("\n", " ").split(",") if a.strip()}
    for m in re.finditer(r"^'(\S+)' does not depend on any axioms", out, flags=re.M):
        res[m.group(1)] = set()
    bad = {}
    discharged = 0
    for n in names:
        if n not in res:
            bad[n] = ["<not found / did not compile>"]
        elif not res[n] <= ALLOWED_AXIOMS:
            bad[n] = sorted(res[n])
        else:
            discharged += 1
    return dict(obligations=len(names), discharged=discharged, bad=bad, examples=examples,
                names=names, raw=out if (bad or p.returncode != 0) else "")


def leanchecker(mods, timeout=3000):
    p = subprocess.run(["lake", "env", "leanchecker"] + mods, cwd=LEAN, capture_output=True, text=True, timeout=timeout)
    return p.returncode == 0, (p.stdout + p.stderr)[-2000:]


# ------------------------------------------------------------------------------------ L2
def run_driver(driver_rel, lines, timeout=3000):
    """Run `lake env lean --run <driver>` feeding request lines; returns reply lines."""
    inp = "\n".join(lines) + "\n"
    p = subprocess.run(["lake", "env", "lean", "--run", driver_rel], cwd=LEAN, input=inp,
                       capture_output=True, text=True, timeout=timeout)
    if p.returncode != 0:
        raise Infra(f"Lean driver {driver_rel} failed: {p.stderr[-2000:]}{p.stdout[-500:]}")
    out = p.stdout.splitlines()
    if len(out) != len(lines):
        raise Infra(f"Lean driver {driver_rel}: {len(lines)} requests, {len(out)} replies; tail: {out[-3:]}")
    return out


def rat(q):
    """Fraction/int -> 'p/q' text"""
    from fractions import Fraction
    q = Fraction(q)
    return f"{q.numerator}/{q.denominator}"


# ------------------------------------------------------------------------------------ findings
def load_known():
    p = os.path.join(VERIF, "known_findings.json")
    if not os.path.exists(p):
        return []
    return json.load(open(p)).get("findings", [])


def known_match(prop, signature):
    """A finding matches when its property equals and its `signature` string equals."""
    for f in load_known():
        if f.get("property") == prop and f.get("status") == "open" and f.get("signature") == signature:
            return f
    return None


# ------------------------------------------------------------------------------------ run object
class Run:
    def __init__(self, prop, level="proof"):
        self.prop = prop
        self.level = level
        self.t0 = time.time()
        self.tier = tier()
        self.seed = seed()
        self.cov = dict(trusted_base=list(TRUSTED_BASE), samples=[])
        self.assumptions = []
        self.violations = []   # (signature, replay_obj, no_input)
        self.known_hits = []
        self.counts = {}

    # counters for the input distribution
    def count(self, key, n=1):
        self.counts[key] = self.counts.get(key, 0) + n

    def sample(self, obj, limit=4):
        if len(self.cov["samples"]) < limit:
            self.cov["samples"].append(obj)

    def violation(self, signature, replay_obj, no_input=False):
        """Record a violation with a *signature* (operation + minimal input class) used for
        matching known findings."""
        kf = known_match(self.prop, signature)
        if kf is not None:
            if signature not in [k[0] for k in self.known_hits]:
                self.known_hits.append((signature, kf))
            return False
        self.count("violation:" + signature)
        if signature in [v[0] for v in self.violations]:
            return True     # one replay per signature; occurrences are counted
        self.violations.append((signature, replay_obj, no_input))
        return True

    def l1(self, modules, gen_modules=()):
        """build + audit; returns dict. Raises Infra when the hand-written library fails to build."""
        hits = grep_forbidden()
        if hits:
            raise Infra(f"forbidden tokens in Lean sources: {hits[:5]}")
        # hand-written library (models, lemmas, all property files, driver utilities) + the generated modules THIS property
        # depends on; generated modules of other properties (re-translated from whatever tree their last run looked at)
        # are not this property's obligations
        targets = []
        for sub in ("Model", "Lemmas", "Props"):
            for f in sorted(os.listdir(os.path.join(LEAN, "RenoVerif", sub))):
                if f.endswith(".lean"):
                    targets.append(f"RenoVerif.{sub}.{f[:-5]}")
        targets.append("RenoVerif.Driver.Util")
        targets += [m[:-5].replace("/", ".") for m in gen_modules]
        ok, log = lake_build(targets)
        res = dict(build_ok=ok, log=log[-3000:] if not ok else "")
        if ok:
            a = audit(list(modules) + list(gen_modules))
            res.update(a)
            if a["bad"]:
                res["build_ok"] = False
        self.cov["obligations"] = res.get("obligations", 0)
        self.cov["discharged"] = res.get("discharged", 0)
        self.cov["nonvacuity_examples"] = res.get("examples", 0)
        self.cov["checker_cmd"] = "cd /verif/lean && lake build <Model/*, Lemmas/*, Props/*" + "".join(", " + m for m in gen_modules) + "> && lake env lean <#print axioms of every theorem in " + ", ".join(list(modules) + list(gen_modules)) + ">"
        self.cov["theorems"] = res.get("names", [])
        if self.tier == "thorough" and ok:
            mods = [m[:-5].replace("/", ".") for m in list(modules) + list(gen_modules)]
            lok, llog = leanchecker(mods)
            self.cov["leanchecker"] = "ok" if lok else llog
            if not lok:
                raise Infra("leanchecker failed: " + llog)
        return res

    def finish(self):
        os.makedirs(EVID, exist_ok=True)
        os.makedirs(REPLAY, exist_ok=True)
        self.cov["input_distribution"] = self.counts
        lines = []
        for sig, kf in self.known_hits:
            lines.append(f"KNOWN-FINDING: property={self.prop} {kf.get('what', sig)}")
        for i, (sig, obj, no_input) in enumerate(self.violations):
            path = os.path.join(REPLAY, f"{self.prop}_{self.seed}_{i}.json")
            with open(path, "w") as f:
                json.dump(dict(property=self.prop, signature=sig, seed=self.seed, tier=self.tier, replay=obj,
                               no_failing_input_found=bool(no_input)), f, indent=1, default=str)
            lines.append(f"VIOLATION property={self.prop} replay={path}" + (" no-failing-input-found" if no_input else ""))
        ev = dict(property_id=self.prop, tier=self.tier if self.tier in ("quick", "thorough") else "quick",
                  seed=self.seed, level=self.level, coverage=self.cov, assumptions=self.assumptions,
                  wall_s=round(time.time() - self.t0, 2), violations=len(self.violations))
        ev["coverage"]["known_findings_reproduced"] = [s for s, _ in self.known_hits]
        if not ev["coverage"]["samples"]:
            ev["coverage"]["samples"] = ["<no sample recorded>"]
        with open(os.path.join(EVID, f"{self.prop}.json"), "w") as f:
            json.dump(ev, f, indent=1, default=str)
        for l in lines:
            print(l)
        sys.stdout.flush()
        return 1 if self.violations else 0


def main_wrapper(fn):
    try:
        rc = fn()
    except Infra as e:
        print(f"INFRASTRUCTURE-FAILURE: {e}", file=sys.stderr)
        sys.exit(2)
    except subprocess.TimeoutExpired as e:
        print(f"INFRASTRUCTURE-FAILURE: timeout {e}", file=sys.stderr)
        sys.exit(2)
    except Exception as e:  # noqa
        # an exception the harness did not anticipate.  If it was raised INSIDE the code under test (a frame of the repository is the
        # innermost one) the property is no longer shown to hold on this tree: report it as a violation whose replay is the traceback
        # (no minimised input); anything else is a defect of the machinery: exit 2, never a verdict.
        import traceback
        tb = traceback.extract_tb(e.__traceback__)
        repo = os.path.realpath(REPO)
        inner = [fr for fr in tb if os.path.realpath(fr.filename).startswith(repo + os.sep)]
        prop = os.path.basename(sys.argv[0]).split(".")[0].upper()
        if inner and os.path.realpath(tb[-1].filename).startswith(repo + os.sep) and prop.startswith("C") and prop[1:].isdigit():
            os.makedirs(REPLAY, exist_ok=True)
            seed = os.environ.get("VERIF_SEED", "0")
            path = os.path.join(REPLAY, f"{prop}_{seed}_uncaught.json")
            with open(path, "w") as f:
                json.dump(dict(property=prop, signature=f"uncaught:{type(e).__name__}@{inner[-1].name}", seed=seed,
                               tier=os.environ.get("VERIF_TIER", "quick"), no_failing_input_found=True,
                               replay=dict(what="the code under test raised an exception at a call the harness expects to succeed; re-run "
                                                "the check with the same seed to reproduce", error=repr(e)[:500],
                                           traceback=traceback.format_exc()[-3000:])), f, indent=1)
            print(f"VIOLATION property={prop} replay={path} no-failing-input-found")
            sys.stdout.flush()
            sys.exit(1)
        print("INFRASTRUCTURE-FAILURE: unexpected exception in the harness\n" + traceback.format_exc()[-3000:], file=sys.stderr)
        sys.exit(2)
    sys.exit(rc)
