"""Shared generators / dense oracle for the MPO-construction properties C01 and C20.

Everything a case needs is a JSON-serialisable *spec*:

  basis spec  : list of dicts  {"kind": ..., "dof": name | [names], ...params}
  term spec   : list of [symbols, dofs, [re, im]]     (symbols/dofs are flat, same length; the
                order is the order of the factors in the user-level product, i.e. what is passed
                to Op(" ".join(symbols), dofs, factor))

The dense oracle never calls Op.product / Op.split_elementary / Model.dof_to_siteidx /
_terms_to_table: it groups the factors of a term per site itself (keeping the intra-site order),
asks the basis set only for the local matrix of that site-level product (`basis.op_mat`, which is
the "local matrix of term k" of the property; its correctness is C16's business) and assembles
sum_k c_k kron_i M_ki - offset * 1 with np.kron in site order (site 0 = most significant index,
which is what Mpo.todense() produces: verified by the one-site-at-a-time probe `probe_kron_order`).
"""
import logging

import numpy as np

from renormalizer.model import Model, Op
from renormalizer.model import basis as ba

logging.getLogger("renormalizer").setLevel(logging.ERROR)

EPS = np.finfo(float).eps


# ------------------------------------------------------------------------------------ bases
def make_basis(spec):
    k = spec["kind"]
    d = spec["dof"]
    d = [dofname(x) for x in d] if isinstance(d, list) else dofname(d)
    if k == "spin":
        return ba.BasisHalfSpin(d, sigmaqn=spec.get("sigmaqn"))
    if k == "sho":
        return ba.BasisSHO(d, omega=spec["omega"], nbas=spec["nbas"], x0=spec.get("x0", 0.0),
                           dvr=spec.get("dvr", False))
    if k == "hops":
        return ba.BasisHopsBoson(d, spec["nbas"])
    if k == "sine":
        return ba.BasisSineDVR(d, spec["nbas"], spec["xi"], spec["xf"])
    if k == "elec":
        return ba.BasisSimpleElectron(d, sigmaqn=spec.get("sigmaqn"))
    if k == "multi":
        return ba.BasisMultiElectron(d, spec["sigmaqn"])
    if k == "multivac":
        return ba.BasisMultiElectronVac(d)
    if k == "dummy":
        return ba.BasisDummy(d, nbas=1, sigmaqn=spec.get("sigmaqn"))
    raise ValueError(k)


def make_model(bspecs):
    return Model([make_basis(s) for s in bspecs], [])


def dofname(x):
    """JSON form of a DoF name -> the hashable name handed to the library.
    ints and strings stand for themselves; {"t": [...]} stands for the tuple (...)."""
    if isinstance(x, dict):
        return tuple(x["t"])
    return x


def site_dofs(spec):
    """JSON-form DoF names of a site"""
    d = spec["dof"]
    return list(d) if isinstance(d, list) else [d]


# site-level vocabulary: each entry is (list of symbols, list of dof positions within the site,
# is_complex_matrix).  The symbols of one entry are adjacent factors on that site.
# the one-character alias "+" is left out on purpose: in a flat product string the sequence
# "b^\\dagger + b" (boson factor, spin "+", boson factor) is read by Op as the simple symbol b^\\dagger+b
SPIN_1 = ["X", "Y", "Z", "sigma_+", "sigma_-", "sigma_x", "sigma_z", "iY", "-", "sigma_y"]
SPIN_CPLX = {"Y", "sigma_y", "y"}


def vocab(spec, rng, allow_complex=True, rich=True):
    """return a list of site-level operators available on this site"""
    k = spec["kind"]
    out = []
    if k == "spin":
        singles = SPIN_1 if rich else ["X", "Z", "sigma_+", "sigma_-"]
        for s in singles:
            out.append(([s], [0], s in SPIN_CPLX))
        if rich:
            for _ in range(4):
                n = int(rng.integers(2, 4))
                syms = [SPIN_1[int(rng.integers(len(SPIN_1)))] for _ in range(n)]
                out.append((syms, [0] * n, sum(s in SPIN_CPLX for s in syms) % 2 == 1))
            out.append((["sigma_+", "sigma_-"], [0, 0], False))
            out.append((["sigma_-", "sigma_+"], [0, 0], False))
    elif k == "sho":
        for syms in (["x"], ["x^2"], ["x", "x"], ["x", "x", "x"], ["p^2"], ["b"], [r"b^\dagger"],
                     [r"b^\dagger", "b"], ["b", r"b^\dagger"], ["b", "b"], [r"b^\dagger", r"b^\dagger"],
                     [r"b^\dagger+b"], ["n"], ["x^3"], ["dx"], ["dx^2"]):
            out.append((syms, [0] * len(syms), False))
        if not spec.get("dvr", False):
            out.append((["x", "dx"], [0, 0], False))
        for syms in (["p"], ["x", "p"], ["p", "x"], ["p", "p", "p"]):
            if spec.get("dvr", False) and len(syms) == 2:
                continue
            out.append((syms, [0] * len(syms), True))
    elif k == "hops":
        out = [([r"b^\dagger", "b"], [0, 0], False), ([r"\tilde{b}^\dagger"], [0], False), ([r"\tilde{b}"], [0], False)]
    elif k == "sine":
        for syms in (["x"], ["x^2"], ["x", "x"], ["dx"], ["p^2"], ["dx^2"], ["x", "dx"], ["x", "p^2"], ["x^2", "dx"]):
            out.append((syms, [0] * len(syms), False))
        out.append((["p"], [0], True))
    elif k == "elec":
        out = [([r"a^\dagger"], [0], False), (["a"], [0], False), ([r"a^\dagger", "a"], [0, 0], False)]
    elif k in ("multi", "multivac"):
        n = len(spec["dof"])
        for i in range(n):
            for j in range(n):
                out.append(([r"a^\dagger", "a"], [i, j], False))
                out.append((["a", r"a^\dagger"], [i, j], False))
            if k == "multivac":
                out.append(([r"a^\dagger"], [i], False))
                out.append((["a"], [i], False))
    elif k == "dummy":
        out = []
    # the complex flag is measured, not guessed: dtype of the basis set's own local matrix
    # ("Y Y" is numerically real but comes back with a complex dtype, which is what matters for D12)
    b = make_basis(spec)
    dl = site_dofs(spec)
    out = [(s, p, bool(np.iscomplexobj(local_matrix(b, s, [dl[q] for q in p])))) for s, p, _ in out]
    if not allow_complex:
        out = [o for o in out if not o[2]]
    return out


def default_qn(sym, qn_size):
    if qn_size == 1:
        return None
    v = 1 if sym == r"a^\dagger" else (-1 if sym == "a" else 0)
    return [v] + [0] * (qn_size - 1)


def make_op(term, qn_size=1):
    syms, dofs, (re, im) = term
    dofs = [dofname(x) for x in dofs]
    # im is None  -> a real python float;  otherwise a python complex (even when im == 0.0)
    f = float(re) if im is None else complex(re, im)
    qn = None
    if qn_size != 1:
        qn = [default_qn(s, qn_size) for s in syms]
    return Op(" ".join(syms), list(dofs), f, qn=qn)


def term_factor(term):
    re, im = term[2]
    return complex(re, 0.0 if im is None else im)


# ------------------------------------------------------------------------------------ oracle
def _dofkey(x):
    return dofname(x)


def site_products(bspecs, term):
    """group the factors of one term per site (intra-site order kept).
    returns dict site -> (symbols, dofs)"""
    where = {}
    for i, s in enumerate(bspecs):
        for d in site_dofs(s):
            where[_dofkey(d)] = i
    res = {}
    syms, dofs, _ = term
    for s, d in zip(syms, dofs):
        i = where[_dofkey(d)]
        res.setdefault(i, ([], []))
        res[i][0].append(s)
        res[i][1].append(d)
    return res


def local_matrix(basis, syms, dofs):
    """matrix of the site-level product as defined by the basis set"""
    return np.asarray(basis.op_mat(Op(" ".join(syms), [dofname(d) for d in dofs], 1.0)))


def dense_reference(bspecs, terms, offset, bases=None):
    """returns (dense, scale): scale = sum_k |c_k| prod_i max|M_ki| + |offset|"""
    if bases is None:
        bases = [make_basis(s) for s in bspecs]
    dims = [b.nbas for b in bases]
    D = int(np.prod(dims))
    dense = np.zeros((D, D), dtype=complex)
    scale = abs(offset)
    cache = {}
    for t in terms:
        sp = site_products(bspecs, t)
        c = term_factor(t)
        m = np.ones((1, 1), dtype=complex)
        sc = abs(c)
        for i, b in enumerate(bases):
            if i in sp:
                key = (i, tuple(sp[i][0]), repr(sp[i][1]))
                if key not in cache:
                    cache[key] = local_matrix(b, sp[i][0], sp[i][1])
                mi = cache[key]
            else:
                mi = np.eye(dims[i])
            sc *= max(1.0, float(np.max(np.abs(mi)))) if mi.size else 1.0
            m = np.kron(m, mi)
        dense += c * m
        scale += sc
    dense -= offset * np.eye(D)
    return dense, scale


def term_is_complex_matrix(bspecs, term, bases):
    sp = site_products(bspecs, term)
    for i, (syms, dofs) in sp.items():
        if np.iscomplexobj(local_matrix(bases[i], syms, dofs)):
            return True
    return False


def term_rows(bspecs, terms, offset):
    """the deduplicated symbolic term table, built independently of the library:
    row = tuple over sites of (symbols, dofs) or None for identity; value = summed factor.
    `Op("I", first dof of the site)` is the library's own identity symbol and is mapped to None."""
    n = len(bspecs)
    rows = {}
    for t in terms:
        sp = site_products(bspecs, t)
        key = []
        for i in range(n):
            if i not in sp:
                key.append(None)
                continue
            syms, dofs = sp[i]
            if syms == ["I"] and dofs == [site_dofs(bspecs[i])[0]]:
                key.append(None)
            else:
                key.append((tuple(syms), repr(dofs)))
        key = tuple(key)
        rows[key] = rows.get(key, 0) + term_factor(t)
    if offset != 0:
        key = tuple([None] * n)
        rows[key] = rows.get(key, 0) - offset
    return rows



# ------------------------------------------------------------------------------------ generators
def gen_basis_specs(rng, nsite, kinds=None, qn2=False, maxdim=4, dense_cap=4096):
    """random ordered list of basis sets.  DoF names are a mix of ints, strings and tuples."""
    if kinds is None:
        kinds = ["spin", "spin", "sho", "sho", "elec", "multi", "multivac", "hops", "sine", "dummy"]
    if qn2:
        kinds = [k for k in kinds if k in ("spin", "elec", "multi", "dummy")]
    specs = []
    total = 1
    for i in range(nsite):
        for _ in range(20):
            k = kinds[int(rng.integers(len(kinds)))]
            style = int(rng.integers(3))
            name = (lambda j: i * 10 + j) if style == 0 else ((lambda j: f"d{i}_{j}") if style == 1 else (lambda j: {"t": ["t", i, j]}))
            if k == "spin":
                s = dict(kind=k, dof=name(0))
                if qn2:
                    s["sigmaqn"] = [[0, 0], [0, 0]] if rng.random() < 0.5 else [[1, 0], [0, 1]]
                dim = 2
            elif k == "sho":
                dim = int(rng.integers(2, maxdim + 1))
                s = dict(kind=k, dof=name(0), omega=float(np.round(rng.uniform(0.3, 3.0), 3)), nbas=dim,
                         x0=float(rng.choice([0.0, 0.0, 0.75, -1.5])), dvr=bool(rng.random() < 0.15))
            elif k == "hops":
                dim = int(rng.integers(2, maxdim + 1))
                s = dict(kind=k, dof=name(0), nbas=dim)
            elif k == "sine":
                dim = int(rng.integers(2, maxdim + 1))
                s = dict(kind=k, dof=name(0), nbas=dim, xi=float(rng.choice([-1.0, 0.0, 0.5])), xf=2.5)
            elif k == "elec":
                s = dict(kind=k, dof=name(0))
                if qn2:
                    s["sigmaqn"] = [[0, 0], [1, 0]] if rng.random() < 0.5 else [[0, 0], [0, 1]]
                dim = 2
            elif k == "multi":
                n = int(rng.integers(2, maxdim + 1))
                s = dict(kind=k, dof=[name(j) for j in range(n)],
                         sigmaqn=[[1, 0] if j % 2 else [0, 1] for j in range(n)] if qn2 else [1] * n)
                dim = n
            elif k == "multivac":
                n = int(rng.integers(1, maxdim))
                s = dict(kind=k, dof=[name(j) for j in range(n)])
                dim = n + 1
            else:
                s = dict(kind="dummy", dof=name(0))
                if qn2:
                    s["sigmaqn"] = [[0, 0]]
                dim = 1
            if total * dim <= dense_cap:
                break
        else:
            s = dict(kind="spin", dof=f"fallback{i}")
            if qn2:
                s["sigmaqn"] = [[0, 0], [0, 0]]
            dim = 2
        total *= dim
        specs.append(s)
    return specs


def gen_factor(rng, mode, cplx):
    """mode: 'int' small integers / dyadics (exact), 'wide' 1e-3..1e3, 'unit' O(1) floats"""
    def one():
        if mode == "int":
            return float(rng.integers(-3, 4)) / float(2 ** int(rng.integers(0, 3)))
        if mode == "wide":
            return float(rng.choice([-1, 1]) * 10 ** rng.uniform(-3, 3))
        if mode == "tiny":      # force constants in small units: every coefficient far below any absolute cut-off
            return float(rng.choice([-1, 1]) * 10 ** rng.uniform(-19, -12))
        return float(np.round(rng.normal(), 6))
    re = one()
    im = one() if cplx else None
    if re == 0 and not im:
        re = 1.0
    return [re, im]


def gen_terms(rng, bspecs, nterms, cplx, mode="unit", rich=True, max_support=4, p_dup=0.15, p_cancel=0.1,
              p_identity=0.05, p_explicit_I=0.05):
    """random term table: random supports, shared prefixes, duplicates, cancelling pairs.
    returns list of [symbols, dofs, [re, im]]"""
    nsite = len(bspecs)
    vocs = [vocab(s, rng, allow_complex=cplx, rich=rich) for s in bspecs]
    active = [i for i in range(nsite) if vocs[i]]
    terms = []

    def fresh():
        if not active or rng.random() < p_identity:
            i = int(rng.integers(nsite))
            return [["I"], [site_dofs(bspecs[i])[0]], gen_factor(rng, mode, cplx)]
        if terms and rng.random() < 0.35:
            # share a prefix (left part) or suffix (right part) with an existing term
            base = terms[int(rng.integers(len(terms)))]
            sp = site_products(bspecs, base)
            cut = int(rng.integers(nsite + 1))
            keep_left = rng.random() < 0.5
            blocks = {i: v for i, v in sp.items() if (i < cut) == keep_left and not (len(v[0]) == 1 and v[0][0] == "I")}
        else:
            blocks = {}
        k = int(rng.integers(1, min(max_support, len(active)) + 1))
        for i in rng.choice(active, size=k, replace=False):
            i = int(i)
            if i in blocks:
                continue
            if blocks and rng.random() < 0.3:
                continue
            syms, pos, _ = vocs[i][int(rng.integers(len(vocs[i])))]
            dl = site_dofs(bspecs[i])
            blocks[i] = (list(syms), [dl[p] for p in pos])
        if not blocks:
            i = active[int(rng.integers(len(active)))]
            syms, pos, _ = vocs[i][int(rng.integers(len(vocs[i])))]
            dl = site_dofs(bspecs[i])
            blocks[i] = (list(syms), [dl[p] for p in pos])
        if rng.random() < p_explicit_I:
            free = [i for i in range(nsite) if i not in blocks]
            if free:
                i = free[int(rng.integers(len(free)))]
                dl = site_dofs(bspecs[i])
                blocks[i] = (["I"], [dl[int(rng.integers(len(dl)))]])
        return flatten(rng, blocks) + [gen_factor(rng, mode, cplx)]

    while len(terms) < nterms:
        r = rng.random()
        if terms and r < p_dup:
            b = terms[int(rng.integers(len(terms)))]
            terms.append([list(b[0]), list(b[1]), gen_factor(rng, mode, cplx)])
        elif terms and r < p_dup + p_cancel:
            b = terms[int(rng.integers(len(terms)))]
            s = -1.0 if rng.random() < 0.5 else -0.5           # exact / partial cancellation
            f = [s * b[2][0], None if b[2][1] is None else s * b[2][1]]
            # same operator, possibly with the sites written in another order
            blocks = site_products(bspecs, b)
            sy, df = flatten(rng, {i: (list(v[0]), list(v[1])) for i, v in blocks.items()})
            terms.append([sy, df, f])
        else:
            terms.append(fresh())
    return terms


def flatten(rng, blocks):
    """write the site blocks of a term as one flat product: random order of the sites, and with
    probability 1/3 interleave the factors of different sites (keeping each site's own order)"""
    keys = list(blocks.keys())
    order = [keys[int(j)] for j in rng.permutation(len(keys))]
    if rng.random() < 1 / 3 and len(keys) > 1:
        queues = {i: list(zip(*blocks[i])) for i in order}
        syms, dofs = [], []
        while queues:
            ks = list(queues.keys())
            i = ks[int(rng.integers(len(ks)))]
            s, d = queues[i].pop(0)
            syms.append(s)
            dofs.append(d)
            if not queues[i]:
                del queues[i]
        return [syms, dofs]
    syms, dofs = [], []
    for i in order:
        syms += list(blocks[i][0])
        dofs += list(blocks[i][1])
    return [syms, dofs]


# ------------------------------------------------------------------------------------ graphs
def max_matching(adj, nV):
    """Kuhn's augmenting-path maximum matching, written independently of the library.
    adj: list of neighbour lists (U side).  returns (size, matchV) with matchV[v] = u or -1.
    The result is re-validated as a matching by `is_matching` where it is used as a certificate."""
    import sys
    sys.setrecursionlimit(max(sys.getrecursionlimit(), 10000))
    matchV = [-1] * nV

    def try_u(u, seen):
        for v in adj[u]:
            v = int(v)
            if seen[v]:
                continue
            seen[v] = True
            if matchV[v] == -1 or try_u(matchV[v], seen):
                matchV[v] = u
                return True
        return False

    size = 0
    for u in range(len(adj)):
        if try_u(u, [False] * nV):
            size += 1
    return size, matchV


def is_matching(adj, matchV):
    used = set()
    for v, u in enumerate(matchV):
        if u == -1:
            continue
        if u in used or v not in [int(x) for x in adj[u]]:
            return False
        used.add(u)
    return True


def matching_number_flow(A):
    """maximum matching by max-flow (scipy Dinic) -- a second, independent computation"""
    import scipy.sparse as sp
    from scipy.sparse.csgraph import maximum_flow
    A = np.asarray(A)
    nU, nV = A.shape
    n = nU + nV + 2
    s, t = nU + nV, nU + nV + 1
    rows, cols = [], []
    for u in range(nU):
        rows.append(s); cols.append(u)
        for v in range(nV):
            if A[u, v]:
                rows.append(u); cols.append(nU + v)
    for v in range(nV):
        rows.append(nU + v); cols.append(t)
    g = sp.csr_matrix((np.ones(len(rows), dtype=np.int32), (rows, cols)), shape=(n, n))
    return int(maximum_flow(g, s, t).flow_value)


def brute_min_cover(A):
    """minimum vertex cover size by enumeration of all vertex subsets (A: 0/1 matrix)"""
    A = np.asarray(A)
    nU, nV = A.shape
    edges = [(u, v) for u in range(nU) for v in range(nV) if A[u, v]]
    best = nU + nV
    for mask in range(1 << (nU + nV)):
        c = bin(mask).count("1")
        if c >= best:
            continue
        ok = True
        for u, v in edges:
            if not ((mask >> u) & 1 or (mask >> (nU + v)) & 1):
                ok = False
                break
        if ok:
            best = c
    return best if edges else 0
