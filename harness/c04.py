"""C04 — canonicalisation and lossless compression preserve the represented object.
L1: Lean: any sequence of two-site re-factorisations preserves every amplitude (amp_steps); QR / RQ
    pushes, lossless SVD updates and operator norm balancing are such steps under the kernel
    contract; isometric blocks; bond-dimension bookkeeping of a sweep.
L2: (a) the HYPOTHESES of the theorems are checked on the real kernel outputs: every call of
    `_update_ms` made by canonicalise / compress is intercepted, and the two-site tensor before and
    after must agree (Step hypothesis), the pushed site must be an isometry (QᴴQ = 1), no bond may grow;
    (b) exact replay of the bond dimensions of a sweep against the Lean `sweepR` model for chains
    without symmetry blocks.
L3: dense oracle (search_c04)."""
import numpy as np

import common
from common import Run, Infra


def two_site(mp, i):
    a = np.asarray(mp[i].array)
    b = np.asarray(mp[i + 1].array)
    return np.tensordot(a, b, axes=([a.ndim - 1], [0]))


def variational_generous(run, rng, quick):
    """`variational_compress(mpo)` with a bond limit far above every Schmidt rank (so that no symmetry sector can be
    starved) and a poor initial guess (vguess_m small): the 2-site sweep procedure must converge to the dense product."""
    from renormalizer.model import Model, Op
    from renormalizer.model.basis import BasisSimpleElectron
    from renormalizer.mps import Mps, Mpo
    from renormalizer.utils import CompressConfig, CompressCriteria
    import lib_chain as lc
    done = 0
    for _ in range(2 if quick else 8):
        n = int(rng.integers(6, 9)) if quick else int(rng.integers(6, 11))
        np.random.seed(int(rng.integers(2 ** 31)))
        basis = [BasisSimpleElectron(i) for i in range(n)]
        terms = [Op(r"a^\dagger a", [i, j], float(rng.uniform(-0.5, 0.5))) for i in range(n) for j in range(n)]
        model = Model(basis, terms)
        mpo = Mpo(model)
        mps = Mps.random(model, n // 2, 6, percent=1.0).canonicalise().canonicalise()
        ref = mpo.todense() @ lc.dense_state(mps).ravel()
        M = 4 * 2 ** (n // 2)
        # one-site sweeps can only grow a bond inside symmetry blocks that are already populated (recorded finding
        # `variational:sector-starved:stalled`): the one-site configuration is run on a model WITHOUT symmetry labels, where the
        # zero-singular-value vectors of the full SVD let every bond grow
        from renormalizer.model.basis import BasisHalfSpin
        sbasis = [BasisHalfSpin(i) for i in range(n)]
        sterms = [Op("sigma_x sigma_x", [i, j], float(rng.uniform(-0.5, 0.5))) for i in range(n) for j in range(i + 1, n)] + \
                 [Op("sigma_z", i, float(rng.uniform(-0.5, 0.5))) for i in range(n)] + [Op("sigma_x", i, float(rng.uniform(-0.5, 0.5))) for i in range(n)]
        smodel = Model(sbasis, sterms)
        smpo = Mpo(smodel)
        smps = Mps.random(smodel, 0, 6, percent=1.0).canonicalise().canonicalise()
        sref = smpo.todense() @ lc.dense_state(smps).ravel()
        for name, kw in (("plain-25-sweeps:guess(1,1)", dict(vmethod="2site", vprocedure=[[M, 0]] * 25, vguess_m=(1, 1))),
                         ("default-procedure:guess(2,2)", dict(vmethod="2site", vguess_m=(2, 2))),
                         ("1site:no-symmetry:plain-60-sweeps:guess(1,1)", dict(vmethod="1site", vprocedure=[[M, 0]] * 60, vguess_m=(1, 1)))):
            if name.startswith("1site"):
                case_mps, case_mpo, case_ref = smps, smpo, sref
            else:
                case_mps, case_mpo, case_ref = mps, mpo, ref
            work = case_mps.copy()
            work.compress_config = CompressConfig(CompressCriteria.fixed, max_bonddim=M, **kw)
            try:
                out = work.variational_compress(case_mpo)
            except Exception as e:  # noqa
                run.count("variational-generous-raised:" + type(e).__name__)
                continue
            done += 1
            err = float(np.linalg.norm(lc.dense_state(out).ravel() - case_ref) / np.linalg.norm(case_ref))
            run.count("variational-generous:" + name)
            if err > 1e-6:
                run.violation("variational:generous-limit:poor-guess:not-converged",
                              dict(nsite=n, bond_limit=M, config=name, relative_error=err, bond_dims=list(out.bond_dims),
                                   terms=[(t.symbol, list(t.dofs), float(t.factor)) for t in terms], mps=lc.dump_chain(mps),
                                   what="variational compression of mpo@mps with a bond limit far above every Schmidt rank stopped away from the product"))
    return done


def ensure_canonical_claims(run, rng, quick):
    """after `ensure_left_canonical` / `ensure_right_canonical` every site away from the centre must be an isometry (complex Gram
    matrix computed here, not the library's own test), the object unchanged.  Inputs: sums whose bookkeeping flags are inherited from
    a canonical operand while the tensors are not isometric — real + i*real (purely imaginary Gram deviations), real + real, complex."""
    from renormalizer.model import Model, Op
    from renormalizer.model import basis as ba
    from renormalizer.mps import Mps
    import lib_chain as lc
    done = 0
    for _ in range(8 if quick else 60):
        n = int(rng.integers(3, 6))
        basis = [ba.BasisSimpleElectron(f"e{i}") if i % 2 == 0 else ba.BasisSHO(f"v{i}", 1.0 + 0.1 * i, 3) for i in range(n)]
        model = Model(basis, [Op(r"a^\dagger a", f"e{i}", 1.0) for i in range(0, n, 2)])
        np.random.seed(int(rng.integers(2 ** 31)))
        try:
            a = Mps.random(model, 1, 4, percent=1.0).canonicalise()
            kind = str(rng.choice(["real+i*real", "real+real", "complex+complex"]))
            b = Mps.random(model, 1, 4, percent=1.0)
            if kind == "real+i*real":
                b = b.scale(1j)
            elif kind == "complex+complex":
                a = a.to_complex().scale(complex(0.6, 0.8))
                b = b.to_complex().scale(complex(0.3, -0.5))
            b = b.canonicalise()
            s = a + b
            ref = np.asarray(a.todense()).ravel() * complex(a.coeff) + np.asarray(b.todense()).ravel() * complex(b.coeff)
        except Exception as e:  # noqa
            run.count("ensure-canonical-setup-raised:" + type(e).__name__)
            continue
        for side in ("left", "right"):
            t = s.copy()
            try:
                t.ensure_left_canonical() if side == "left" else t.ensure_right_canonical()
            except Exception as e:  # noqa
                run.violation(f"ensure_{side}_canonical:raises:{type(e).__name__}", dict(kind=kind, nsite=n, error=repr(e)[:200]))
                continue
            done += 1
            run.count(f"ensure-canonical:{side}:{kind}")
            got = np.asarray(t.todense()).ravel() * complex(t.coeff)
            worst = 0.0
            sites = range(0, n - 1) if side == "left" else range(1, n)
            for i in sites:
                m = np.asarray(t[i].array)
                mat = m.reshape(-1, m.shape[-1]) if side == "left" else m.reshape(m.shape[0], -1).conj().T
                g = mat.conj().T @ mat
                worst = max(worst, float(np.max(np.abs(g - np.eye(g.shape[0])))))
            if np.linalg.norm(got - ref) > 1e-9 * max(1.0, np.linalg.norm(ref)):
                run.violation(f"ensure_{side}_canonical:object-changed", dict(kind=kind, nsite=n, chain=lc.dump_chain(s)))
            elif worst > 1e-8:
                run.violation(f"ensure_{side}_canonical:site-not-isometric",
                              dict(kind=kind, nsite=n, deviation=worst, chain=lc.dump_chain(s),
                                   what="a site away from the centre is not an isometry after ensure_*_canonical (full complex Gram matrix)"))
    return done


def main():
    run = Run("C04", level="proof")
    quick = run.tier != "thorough"
    rng = np.random.default_rng(run.seed)
    l1 = run.l1(["RenoVerif/Props/C04.lean", "RenoVerif/Lemmas/Chain.lean", "RenoVerif/Lemmas/ChainDot.lean"])
    if not l1["build_ok"]:
        raise Infra("hand-written Lean library failed to build/audit: " + str(l1.get("bad")) + l1.get("log", "")[-800:])
    import lib_chain as lc
    from renormalizer.mps.mp import MatrixProduct

    # ---- (a) contract checks on every real push
    rec = dict(n=0, bad=[])
    orig = MatrixProduct._update_ms

    def wrapped(self, idx, u, vt, sigma=None, qnlset=None, qnrset=None, m_trunc=None):
        j = idx if self.to_right else idx - 1          # left site of the affected pair
        before = two_site(self, j)
        dims_before = list(self.bond_dims)
        to_right = self.to_right
        orig(self, idx, u, vt, sigma, qnlset, qnrset, m_trunc)
        after = two_site(self, j)
        rec["n"] += 1
        scale = max(1.0, float(np.max(np.abs(before))))
        tol = 64 * np.finfo(float).eps * max(before.size, 16) * scale
        lossless = m_trunc is None or sigma is None or m_trunc >= np.sum(np.abs(np.asarray(sigma)) > 1e-13 * max(1e-300, np.max(np.abs(sigma))))
        if lossless and (before.shape != after.shape or np.max(np.abs(before - after)) > tol):
            rec["bad"].append(("two-site-tensor-changed", idx, to_right, float(np.max(np.abs(before - after))) if before.shape == after.shape else -1.0))
        # isometry of the site left behind (states only: operators are norm balanced, sigma is multiplied in)
        if not self.is_mpo:
            t = np.asarray(self[idx].array)
            m = t.reshape(-1, t.shape[-1]) if to_right else t.reshape(t.shape[0], -1).T
            g = m.conj().T @ m
            if np.max(np.abs(g - np.eye(g.shape[0]))) > 1e-9:
                rec["bad"].append(("pushed-site-not-isometric", idx, to_right, float(np.max(np.abs(g - np.eye(g.shape[0]))))))
        if any(x > y for x, y in zip(self.bond_dims, dims_before)):
            rec["bad"].append(("bond-grew", idx, to_right, 0.0))
    MatrixProduct._update_ms = wrapped
    ncase = 40 if quick else 400
    made = 0
    distinct = set()
    try:
        for _ in range(ncase * 10):
            if made >= ncase:
                break
            nsite = int(rng.integers(2, 6))
            spec = lc.random_model_spec(rng, nsite, qn_size=1 if rng.random() < 0.7 else 2, max_d=3)
            model = lc.build_model(spec)
            kind = str(rng.choice(["mps", "mps", "mpo", "mpdm"]))
            mp = lc.random_chain(rng, model, kind, max_bond=4, cplx=bool(rng.random() < 0.5))
            if mp is None:
                continue
            made += 1
            hist = lc.random_history(rng, nsite, allow_partial=True)
            case = dict(kind=kind, chain=lc.dump_chain(mp), history=[list(h) if isinstance(h, (list, tuple)) else h for h in hist])
            nb = len(rec["bad"])
            try:
                lc.apply_history(mp, hist)
            except Exception as e:  # noqa  (the dense oracle module judges exceptions; here only contracts)
                run.count("history-raised:" + type(e).__name__)
            run.count(f"kind={kind}")
            distinct.add((kind, nsite, tuple(str(h) for h in hist)))
            for b in rec["bad"][nb:]:
                run.violation(f"contract:{b[0]}:{kind}", dict(contract=b[0], site=b[1], to_right=b[2], deviation=b[3], case=case,
                                                              what="hypothesis of the Lean re-factorisation theorem violated by a real push"))
    finally:
        MatrixProduct._update_ms = orig
    run.cov["pushes_checked"] = rec["n"]

    # ---- (b) bond dimensions of a sweep, no symmetry blocks
    reqs, exp = [], []
    for _ in range(20 if quick else 200):
        nsite = int(rng.integers(2, 7))
        spec = lc.random_model_spec(rng, nsite, qn_size=1, max_d=4, neutral=True)
        model = lc.build_model(spec)
        kind = str(rng.choice(["mps", "mpo"]))
        mp = lc.random_chain(rng, model, kind, max_bond=6, cplx=False, p_dead=0.0, p_dup=0.0)
        if mp is None:
            continue
        lc.set_centre(mp, [np.zeros((d, 1), dtype=int) for d in mp.bond_dims], 0, True)
        mp.qntot = np.zeros(1, dtype=int)
        dims0 = list(mp.bond_dims)
        pd = [int(np.prod(mp[i].shape[1:-1])) for i in range(len(mp))]
        mp.canonicalise()
        dims1 = list(mp.bond_dims)
        # sweep to the right pushes sites 0..n-2
        reqs.append(f"sweep {','.join(map(str, pd[:-1]))} {','.join(map(str, dims0[1:-1]))} 1")
        exp.append((dims1[1:-1], dict(kind=kind, pdims=pd, dims_before=dims0, dims_after=dims1)))
    replies = common.run_driver("RenoVerif/Driver/C04.lean", reqs) if reqs else []
    for (e, info), req, rep in zip(exp, reqs, replies):
        got = [int(x) for x in rep.split(",")] if rep else []
        run.sample(dict(request=req, model=rep, impl=e), limit=3)
        if got != e:
            run.violation("corr:sweep-dims", dict(correspondence="RenoVerif.Chain.sweepR vs bond_dims after canonicalise (no symmetry blocks)",
                                                  info=info, model=got), no_input=True)
    # ---- (c) variational compression with a generous bond limit and a deliberately poor guess must reach mpo @ mps
    run.cov["ensure_canonical_cases"] = ensure_canonical_claims(run, rng, quick)
    nvar = variational_generous(run, rng, quick)
    run.cov["variational_generous_cases"] = nvar
    run.cov.update(programs=len(reqs) + made, disagreements_checked=len(reqs) + rec["n"], evaluations=rec["n"] + len(reqs),
                   distinct_nontrivial=len(distinct),
                   rule="random QN-consistent Mps/Mpo/MpDm (2-5 sites, redundant / rank-deficient / dimension-1 bonds) x random gauge histories "
                        "(canonicalise to any stop site, lossless compress, ensure_left/right, move_qnidx); every `_update_ms` call is one evaluation; "
                        "distinct = distinct (kind, length, history)")
    try:
        import search_c04
    except ImportError:
        search_c04 = None
        run.cov["search_module"] = "absent"
    if search_c04 is not None:
        ev0, dn0 = run.cov["evaluations"], run.cov["distinct_nontrivial"]
        search_c04.search(run, rng, quick)
        if run.cov.get("evaluations") != ev0:
            run.cov["search_evaluations"] = run.cov["evaluations"]
            run.cov["evaluations"] = ev0 + run.cov["search_evaluations"]
            run.cov["distinct_nontrivial"] = dn0 + run.cov.get("distinct_nontrivial", 0)
    run.assumptions += ["LAPACK QR/SVD are parameters of the theorems; their contract (QR = A, QhQ = 1) is checked on every recorded call",
                        "variational compression: only the fixed-point/agreement with the dense object is searched, convergence is numerical"]
    return run.finish()


if __name__ == "__main__":
    common.main_wrapper(main)
