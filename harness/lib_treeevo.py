"""Helpers of the C12 search (tree time evolution): structural generators of basis trees with
quantum numbers, operator term lists that conserve them, dense references built from the
harness' OWN local matrices (no op_mat / todense of the library in the oracle), own dense
contraction of a TTNS, label-consistency check, snapshots.

A model is described by a JSON-able `spec`:
  qn_size : 1 | 2
  basis   : [ {kind: spin|elec|sho|me, dof | dofs, sigmaqn [[..],..], nbas, omega?} ]
  nodes   : [ {parent: int (-1 root; parent index < own index), sets: [indices into basis] ([] = dummy)} ]
  terms   : [ {symbol, dofs, factor, qn} ]              (symbol split by blanks, one dof / qn per factor)
"""
import logging

import numpy as np
import scipy.linalg as sla

logging.getLogger("renormalizer").setLevel(logging.ERROR)

from renormalizer import Op, BasisHalfSpin, BasisSHO, BasisSimpleElectron, BasisMultiElectron  # noqa: E402
from renormalizer.model.basis import BasisDummy  # noqa: E402
from renormalizer.tn import BasisTree, TTNO, TTNS, TreeNodeBasis  # noqa: E402
from renormalizer.tn.node import TreeNodeTensor, copy_connection  # noqa: E402

EPS = np.finfo(float).eps
MAX_CHILDREN = 3


# ------------------------------------------------------------------------------- local matrices
def own_local(b, sym):
    """matrix of an elementary symbol on basis spec b, written down independently of op_mat"""
    n = b["nbas"]
    k = b["kind"]
    if sym == "I":
        return np.eye(n)
    if k == "spin":
        if sym == "sigma_z":
            return np.diag([1.0, -1.0])
        if sym == "sigma_+":
            return np.array([[0.0, 1.0], [0.0, 0.0]])
        if sym == "sigma_-":
            return np.array([[0.0, 0.0], [1.0, 0.0]])
        if sym == "sigma_x":
            return np.array([[0.0, 1.0], [1.0, 0.0]])
    if k == "elec":
        if sym == r"a^\dagger":
            return np.array([[0.0, 0.0], [1.0, 0.0]])
        if sym == "a":
            return np.array([[0.0, 1.0], [0.0, 0.0]])
    if k == "sho":
        a = np.diag(np.sqrt(np.arange(1, n)), 1)  # annihilation
        if sym == "b":
            return a
        if sym == r"b^\dagger":
            return a.T
        if sym == r"b^\dagger+b":
            return a + a.T
        if sym == "x":
            return np.sqrt(0.5 / b["omega"]) * (a + a.T)
    raise ValueError(f"own_local: {k} {sym}")


def dof_to_basis(spec):
    d = {}
    for ib, b in enumerate(spec["basis"]):
        for dof in (b["dofs"] if b["kind"] == "me" else [b["dof"]]):
            d[_h(dof)] = ib
    return d


def _h(dof):
    return tuple(dof) if isinstance(dof, list) else dof


def tree_basis_order(spec):
    """indices into spec['basis'] (or -1 for a dummy) in the pre-order of the tree = BasisTree.basis_list"""
    children = {i: [] for i in range(len(spec["nodes"]))}
    for i, nd in enumerate(spec["nodes"]):
        if nd["parent"] >= 0:
            children[nd["parent"]].append(i)
    order = []
    node_order = []

    def rec(i):
        node_order.append(i)
        sets = spec["nodes"][i]["sets"]
        order.extend(sets if sets else [-1])
        for c in children[i]:
            rec(c)
    rec(0)
    return order, node_order, children


def dense_term(spec, term, order):
    d2b = dof_to_basis(spec)
    syms = term["symbol"].split(" ")
    mats = {}
    for ib in set(order):
        if ib >= 0:
            mats[ib] = np.eye(spec["basis"][ib]["nbas"])
    # multi-electron pairs a^\dagger_i a_j on the same basis -> |i><j|
    i = 0
    while i < len(syms):
        sym = syms[i]
        dof = _h(term["dofs"][i])
        ib = d2b[dof]
        b = spec["basis"][ib]
        if b["kind"] == "me":
            if sym == "I":
                i += 1
                continue
            assert sym == r"a^\dagger" and syms[i + 1] == "a"
            dof2 = _h(term["dofs"][i + 1])
            assert d2b[dof2] == ib
            m = np.zeros((b["nbas"], b["nbas"]))
            m[[_h(x) for x in b["dofs"]].index(dof), [_h(x) for x in b["dofs"]].index(dof2)] = 1.0
            mats[ib] = mats[ib] @ m
            i += 2
            continue
        mats[ib] = mats[ib] @ own_local(b, sym)
        i += 1
    res = np.eye(1)
    for ib in order:
        res = np.kron(res, mats[ib] if ib >= 0 else np.eye(1))
    return term["factor"] * res


def dense_h(spec, order=None, terms=None):
    if order is None:
        order = tree_basis_order(spec)[0]
    dim = int(np.prod([spec["basis"][ib]["nbas"] if ib >= 0 else 1 for ib in order]))
    h = np.zeros((dim, dim))
    for t in (spec["terms"] if terms is None else terms):
        h = h + dense_term(spec, t, order)
    return h


def sector_labels(spec, order=None):
    """(dim, qn_size) array: total quantum number of every product basis state, in `order`"""
    if order is None:
        order = tree_basis_order(spec)[0]
    q = np.zeros((1, spec["qn_size"]), dtype=int)
    for ib in order:
        s = np.array(spec["basis"][ib]["sigmaqn"], dtype=int) if ib >= 0 else np.zeros((1, spec["qn_size"]), dtype=int)
        q = (q[:, None, :] + s[None, :, :]).reshape(-1, spec["qn_size"])
    return q


# ------------------------------------------------------------------------------- library objects
def make_basis_sets(spec):
    out = []
    for b in spec["basis"]:
        k = b["kind"]
        if k == "spin":
            out.append(BasisHalfSpin(_h(b["dof"]), sigmaqn=[list(x) for x in b["sigmaqn"]]))
        elif k == "elec":
            out.append(BasisSimpleElectron(_h(b["dof"]), sigmaqn=[list(x) for x in b["sigmaqn"]]))
        elif k == "sho":
            bs = BasisSHO(_h(b["dof"]), b["omega"], b["nbas"])
            if spec["qn_size"] != 1:
                bs.sigmaqn = np.zeros((b["nbas"], spec["qn_size"]), dtype=int)
            out.append(bs)
        elif k == "me":
            out.append(BasisMultiElectron([_h(x) for x in b["dofs"]], [list(x) for x in b["sigmaqn"]]))
        else:
            raise ValueError(k)
    return out


_DUMMY = [0]


def make_tree(spec, basis_sets=None):
    if basis_sets is None:
        basis_sets = make_basis_sets(spec)
    nodes = []
    for nd in spec["nodes"]:
        if nd["sets"]:
            nodes.append(TreeNodeBasis([basis_sets[i] for i in nd["sets"]]))
        else:
            _DUMMY[0] += 1
            nodes.append(TreeNodeBasis([BasisDummy(("c12dummy", _DUMMY[0]), sigmaqn=[[0] * spec["qn_size"]])]))
    for i, nd in enumerate(spec["nodes"]):
        if nd["parent"] >= 0:
            nodes[nd["parent"]].add_child(nodes[i])
    return BasisTree(nodes[0]), basis_sets


def make_ops(spec, terms=None):
    ops = []
    for t in (spec["terms"] if terms is None else terms):
        ops.append(Op(t["symbol"], [_h(d) for d in t["dofs"]], t["factor"], qn=[list(q) for q in t["qn"]]))
    return ops


# ------------------------------------------------------------------------------- dense of a TTNS
def dense_ttns(ttns):
    """own contraction: amplitudes in the order of ttns.basis.basis_list (pre-order), WITHOUT coeff"""
    lab = {}
    nxt = [0]

    def new():
        nxt[0] += 1
        return nxt[0] - 1
    args = []
    out = []
    for node in ttns.node_list:
        lab[id(node)] = new()
    for node in ttns.node_list:
        idx = [lab[id(c)] for c in node.children]
        nphys = node.tensor.ndim - len(node.children) - 1
        ph = [new() for _ in range(nphys)]
        idx += ph + [lab[id(node)]]
        out += ph
        args += [node.tensor, idx]
    out.append(lab[id(ttns.root)])
    res = np.einsum(*args, out, optimize=True)
    return np.asarray(res).reshape(-1)


def state_vec(ttns):
    return dense_ttns(ttns) * ttns.coeff


def label_violation(ttns, spec_qn_size):
    """largest |entry| of any node tensor at a position whose labels do not add up, relative to the
    largest entry; also checks shapes of the labels"""
    worst = 0.0
    for node in ttns.node_list:
        bn = ttns.tn2bn[node]
        q = np.zeros((1, spec_qn_size), dtype=int)
        shape = []
        for c in node.children:
            cq = np.asarray(c.qn).reshape(-1, spec_qn_size)
            if cq.shape[0] != node.tensor.shape[len(shape)]:
                return np.inf
            q = (q[:, None, :] + cq[None, :, :]).reshape(-1, spec_qn_size)
            shape.append(cq.shape[0])
        for b in bn.basis_sets:
            s = np.asarray(b.sigmaqn).reshape(-1, spec_qn_size)
            q = (q[:, None, :] + s[None, :, :]).reshape(-1, spec_qn_size)
        own = np.asarray(node.qn).reshape(-1, spec_qn_size)
        if own.shape[0] != node.tensor.shape[-1]:
            return np.inf
        ok = np.all(q[:, None, :] == own[None, :, :], axis=-1)
        t = np.abs(node.tensor.reshape(ok.shape))
        scale = t.max() if t.size and t.max() > 0 else 1.0
        bad = t[~ok]
        if bad.size:
            worst = max(worst, float(bad.max() / scale))
    return worst


def snapshot(ttns):
    return dict(tensors=[np.array(n.tensor, copy=True) for n in ttns.node_list],
                qn=[np.array(n.qn, copy=True) for n in ttns.node_list], coeff=complex(ttns.coeff))


def snapshot_diff(ttns, snap):
    """0.0 if identical; else a positive measure (inf for shape/dtype-of-label changes)"""
    d = 0.0
    for n, t, q in zip(ttns.node_list, snap["tensors"], snap["qn"]):
        if n.tensor.shape != t.shape or np.asarray(n.qn).shape != q.shape:
            return np.inf
        d = max(d, float(np.abs(n.tensor - t).max()) if t.size else 0.0)
        if not np.array_equal(np.asarray(n.qn), q):
            return np.inf
    d = max(d, abs(complex(ttns.coeff) - snap["coeff"]))
    return d


def tensors_json(ttns):
    out = []
    for n in ttns.node_list:
        t = np.asarray(n.tensor)
        out.append(dict(shape=list(t.shape), re=np.real(t).ravel().tolist(),
                        im=(np.imag(t).ravel().tolist() if np.iscomplexobj(t) else None),
                        qn=np.asarray(n.qn).tolist()))
    return out


def ttns_from_tensors(basis_tree, tensors, qns, coeff=1.0):
    nodes = [TreeNodeTensor(np.array(t), np.array(q)) for t, q in zip(tensors, qns)]
    copy_connection(basis_tree.node_list, nodes)
    t = TTNS(basis_tree, root=nodes[0])
    t.coeff = coeff
    return t


# ------------------------------------------------------------------------------- generators
def gen_spec(rng, quick=True, max_dim=160, family=None, qn_size=None, kinds=None, trivial_qn=False):
    """random rooted tree + basis sets + qn-conserving real Hamiltonian"""
    if family is None:
        family = rng.choice(["random", "random", "linear", "star", "mctdh"])
    if qn_size is None:
        qn_size = int(rng.choice([1, 1, 2]))
    while True:
        nsets = int(rng.integers(2, 6 if quick else 7))
        basis = []
        for i in range(nsets):
            kind = str(rng.choice(kinds if kinds else ["spin", "spin", "elec", "sho", "me", "spin0"]))
            if kind == "spin0":
                basis.append(dict(kind="spin", dof=f"s{i}", nbas=2, sigmaqn=[[0] * qn_size] * 2))
            elif kind in ("spin", "elec"):
                comp = int(rng.integers(qn_size))
                up = [0] * qn_size
                up[comp] = 0 if trivial_qn else 1
                sq = [[0] * qn_size, up]
                if kind == "spin" and rng.random() < 0.3:
                    sq = sq[::-1]
                basis.append(dict(kind=kind, dof=(f"s{i}" if kind == "spin" else ["e", i]), nbas=2, sigmaqn=sq))
            elif kind == "sho":
                basis.append(dict(kind="sho", dof=f"v{i}", nbas=int(rng.integers(2, 5)), omega=float(np.round(rng.uniform(0.5, 2.0), 3)),
                                  sigmaqn=None))
                basis[-1]["sigmaqn"] = [[0] * qn_size] * basis[-1]["nbas"]
            else:
                nd = int(rng.integers(2, 4))
                sq = []
                for _ in range(nd):
                    v = [0] * qn_size
                    if rng.random() < 0.7 and not trivial_qn:
                        v[int(rng.integers(qn_size))] = 1
                    sq.append(v)
                basis.append(dict(kind="me", dofs=[f"m{i}_{j}" for j in range(nd)], nbas=nd, sigmaqn=sq))
        dim = int(np.prod([b["nbas"] for b in basis]))
        if 4 <= dim <= max_dim:
            break
    # ---- tree: distribute the sets over nodes, add dummies
    perm = list(rng.permutation(nsets))
    groups = []
    if family == "mctdh":
        # physical sets on leaves (1-2 per leaf), dummy internal nodes
        while perm:
            k = int(rng.integers(1, 3))
            groups.append([int(x) for x in perm[:k]])
            perm = perm[k:]
        nodes = [dict(parent=-1, sets=[])]
        if len(groups) > 3 or (len(groups) > 2 and rng.random() < 0.5):
            # two levels of virtual nodes, at most MAX_CHILDREN children each
            rest = list(groups)
            while rest:
                if len(rest) == 1 and len(nodes) > 1:
                    nodes.append(dict(parent=0, sets=rest.pop(0)))
                    break
                nodes.append(dict(parent=0, sets=[]))
                v = len(nodes) - 1
                for g in rest[:2]:
                    nodes.append(dict(parent=v, sets=g))
                rest = rest[2:]
        else:
            for g in groups:
                nodes.append(dict(parent=0, sets=g))
    else:
        while perm:
            k = int(rng.choice([1, 1, 1, 2, 3]))
            groups.append([int(x) for x in perm[:k]])
            perm = perm[k:]
        # dummies anywhere
        ndummy = int(rng.choice([0, 0, 1, 2])) if family != "linear" or rng.random() < 0.3 else 0
        for _ in range(ndummy):
            groups.insert(int(rng.integers(len(groups) + 1)), [])
        if len(groups) < 2:
            groups.append([])
        nodes = []
        nchild = {}
        for i, g in enumerate(groups):
            if i == 0:
                p = -1
            elif family == "linear":
                p = i - 1
            else:
                p = 0 if family == "star" else int(rng.integers(0, i))
                # <= 3 children per node: the library asks opt_einsum for the *optimal* path, whose
                # search is factorial in the number of tensors (children + 3); 5 children take minutes
                while nchild.get(p, 0) >= MAX_CHILDREN:
                    p = (p + 1) % i
            nchild[p] = nchild.get(p, 0) + 1
            nodes.append(dict(parent=p, sets=g))
    spec = dict(qn_size=qn_size, basis=basis, nodes=nodes, terms=[], family=str(family), trivial_qn=bool(trivial_qn))
    spec["terms"] = gen_terms(rng, spec)
    return spec


def _raise_lower(b, qn_size):
    """list of (symbol_raise, symbol_lower, delta) for a qn-carrying basis; delta = qn change of `raise`"""
    k = b["kind"]
    sq = np.array(b["sigmaqn"])
    if k == "spin":
        d = sq[1] - sq[0]
        if not np.any(d):
            return []
        return [("sigma_-", "sigma_+", d)]   # sigma_- = |1><0| changes the label by sq[1]-sq[0]
    if k == "elec":
        return [(r"a^\dagger", "a", sq[1] - sq[0])]
    return []


def gen_terms(rng, spec, nonint=False, scale=1.0, cluster_of=None):
    """real symmetric qn-conserving Hamiltonian. nonint=True: only terms inside one cluster of tree
    nodes (cluster_of: node index -> cluster id; default every node its own cluster)"""
    qs = spec["qn_size"]
    z = [0] * qs
    basis = spec["basis"]
    node_of = {}
    for inode, nd in enumerate(spec["nodes"]):
        for ib in nd["sets"]:
            node_of[ib] = inode
    terms = []

    def f():
        return float(np.round(rng.uniform(-1, 1) * scale, 3)) or 0.25

    def diag_op(ib):
        b = basis[ib]
        k = b["kind"]
        if k == "spin":
            s = str(rng.choice(["sigma_z", "sigma_+ sigma_-"]))
            if s == "sigma_z":
                return ["sigma_z"], [b["dof"]], [z]
            d = (np.array(b["sigmaqn"][0]) - np.array(b["sigmaqn"][1])).tolist()
            return ["sigma_+", "sigma_-"], [b["dof"]] * 2, [d, [-x for x in d]]
        if k == "elec":
            d = (np.array(b["sigmaqn"][1]) - np.array(b["sigmaqn"][0])).tolist()
            return [r"a^\dagger", "a"], [b["dof"]] * 2, [d, [-x for x in d]]
        if k == "sho":
            s = str(rng.choice([r"b^\dagger b", "x", r"b^\dagger+b"]))
            if s == r"b^\dagger b":
                return [r"b^\dagger", "b"], [b["dof"]] * 2, [z, z]
            return [s], [b["dof"]], [z]
        if k == "me":
            i = int(rng.integers(b["nbas"]))
            q = list(b["sigmaqn"][i])
            return [r"a^\dagger", "a"], [b["dofs"][i]] * 2, [q, [-x for x in q]]
        raise ValueError

    def herm_local(ib):
        """qn-0 local hermitian operator, possibly off-diagonal"""
        b = basis[ib]
        if b["kind"] == "spin" and not np.any(np.array(b["sigmaqn"][1]) - np.array(b["sigmaqn"][0])) and rng.random() < 0.6:
            return ["sigma_x"], [b["dof"]], [z]
        if b["kind"] == "sho" and rng.random() < 0.5:
            return [str(rng.choice(["x", r"b^\dagger+b"]))], [b["dof"]], [z]
        return diag_op(ib)

    n = len(basis)
    # on-site terms
    for ib in range(n):
        if rng.random() < 0.8:
            s, d, q = herm_local(ib)
            terms.append(dict(symbol=" ".join(s), dofs=d, factor=f(), qn=q))
        b = basis[ib]
        if b["kind"] == "sho" and rng.random() < 0.7:
            terms.append(dict(symbol=r"b^\dagger b", dofs=[b["dof"]] * 2, factor=b["omega"], qn=[z, z]))
        if b["kind"] == "me":
            # intra-basis transitions between states of equal label, hermitian pair
            for i in range(b["nbas"]):
                for j in range(i + 1, b["nbas"]):
                    if b["sigmaqn"][i] == b["sigmaqn"][j] and rng.random() < 0.8:
                        c = f()
                        qi = list(b["sigmaqn"][i])
                        for (u, v) in ((i, j), (j, i)):
                            terms.append(dict(symbol=r"a^\dagger a", dofs=[b["dofs"][u], b["dofs"][v]], factor=c,
                                              qn=[qi, [-x for x in qi]]))
    pairs = [(i, j) for i in range(n) for j in range(i + 1, n)]
    if nonint:
        if cluster_of is None:
            cluster_of = {i: i for i in range(len(spec["nodes"]))}
        pairs = [(i, j) for (i, j) in pairs if cluster_of[node_of[i]] == cluster_of[node_of[j]]]
    rng.shuffle(pairs)
    npair = min(len(pairs), 6) if nonint else int(rng.integers(1, max(2, min(len(pairs), 6)) + 1))
    for (i, j) in pairs[:npair]:
        bi, bj = basis[i], basis[j]
        ri, rj = _raise_lower(bi, qs), _raise_lower(bj, qs)
        done = False
        if ri and rj and rng.random() < 0.75:
            (ui, li, di), (uj, lj, dj) = ri[0], rj[0]
            c = f()
            if np.array_equal(di, dj):
                # hop: raise i lower j + h.c.
                terms.append(dict(symbol=f"{ui} {lj}", dofs=[bi["dof"], bj["dof"]], factor=c, qn=[di.tolist(), (-dj).tolist()]))
                terms.append(dict(symbol=f"{li} {uj}", dofs=[bi["dof"], bj["dof"]], factor=c, qn=[(-di).tolist(), dj.tolist()]))
                done = True
            elif np.array_equal(di, -dj):
                terms.append(dict(symbol=f"{ui} {uj}", dofs=[bi["dof"], bj["dof"]], factor=c, qn=[di.tolist(), dj.tolist()]))
                terms.append(dict(symbol=f"{li} {lj}", dofs=[bi["dof"], bj["dof"]], factor=c, qn=[(-di).tolist(), (-dj).tolist()]))
                done = True
        if not done or rng.random() < 0.4:
            s1, d1, q1 = herm_local(i)
            s2, d2, q2 = herm_local(j)
            if rng.random() < 0.5:
                s1, d1, q1, s2, d2, q2 = s2, d2, q2, s1, d1, q1    # operator order not sorted by site
            terms.append(dict(symbol=" ".join(s1 + s2), dofs=d1 + d2, factor=f(), qn=q1 + q2))
    if not terms:   # (an empty term list is C01/C02's subject, not C12's)
        s_, d_, q_ = diag_op(0)
        terms.append(dict(symbol=" ".join(s_), dofs=d_, factor=f(), qn=q_))
    # a three-body diagonal term
    if not nonint and n >= 3 and rng.random() < 0.4:
        tri = rng.choice(n, size=3, replace=False)
        s, d, q = [], [], []
        for ib in tri:
            a, b_, c = diag_op(int(ib))
            s += a
            d += b_
            q += c
        terms.append(dict(symbol=" ".join(s), dofs=d, factor=f(), qn=q))
    # constant energy offset
    if rng.random() < 0.5:
        b0 = basis[int(rng.integers(n))]
        dof = b0["dofs"][0] if b0["kind"] == "me" else b0["dof"]
        if b0["kind"] == "me":
            terms.append(dict(symbol="I I", dofs=[dof, dof], factor=f() * 2, qn=[z, z]))
        else:
            terms.append(dict(symbol="I", dofs=[dof], factor=f() * 2, qn=[z]))
    # duplicate term
    if terms and rng.random() < 0.3:
        k = int(rng.integers(len(terms)))   # split one term into two equal halves (H unchanged)
        terms[k] = dict(terms[k], factor=terms[k]["factor"] / 2)
        terms.insert(int(rng.integers(len(terms) + 1)), dict(terms[k]))
    return terms


def pick_sector(rng, spec):
    """a reachable total label (that of a random product basis state) and the product-state condition"""
    order, _, _ = tree_basis_order(spec)
    q = np.zeros(spec["qn_size"], dtype=int)
    cond = {}
    for ib, b in enumerate(spec["basis"]):
        i = int(rng.integers(b["nbas"]))
        q = q + np.array(b["sigmaqn"][i], dtype=int)
        dof = _h(b["dofs"][0]) if b["kind"] == "me" else _h(b["dof"])
        cond[dof] = i
    return q, cond


def random_product_condition(rng, spec, cond_idx):
    """superposition inside one label class per basis set (keeps a definite sector); JSON-able"""
    cond = {}
    for ib, b in enumerate(spec["basis"]):
        dof = _h(b["dofs"][0]) if b["kind"] == "me" else _h(b["dof"])
        i = cond_idx[dof]
        same = [j for j in range(b["nbas"]) if b["sigmaqn"][j] == b["sigmaqn"][i]]
        if len(same) > 1 and rng.random() < 0.7:
            v = np.zeros(b["nbas"])
            v[same] = rng.normal(size=len(same))
            v /= np.linalg.norm(v)
            cond[dof] = v.tolist()
        else:
            cond[dof] = i
    return cond


def expm_apply(h, psi, tau):
    """reference propagator: real tau -> exp(-i h tau) psi; imaginary tau=-i*beta -> exp(-beta h) psi"""
    if np.iscomplex(tau):
        return sla.expm(h * tau.imag) @ psi
    return sla.expm(-1j * h * float(np.real(tau))) @ psi


def mixed_edges(spec, qntot):
    """edges (named by their child node) at which neither side is complete in EVERY label block:
    some block has fewer subtree states than complement states and another block the opposite.
    Projector splitting with complete bonds is exact unless such an edge exists."""
    nn = len(spec["nodes"])
    qs = spec["qn_size"]
    children = {i: [] for i in range(nn)}
    for i, nd in enumerate(spec["nodes"]):
        if nd["parent"] >= 0:
            children[nd["parent"]].append(i)

    def subtree(i):
        out = [i]
        for c in children[i]:
            out += subtree(c)
        return out

    def count(nodes):
        cnt = {tuple([0] * qs): 1}
        for i in nodes:
            for ib in spec["nodes"][i]["sets"]:
                new = {}
                for k, v in cnt.items():
                    for s in spec["basis"][ib]["sigmaqn"]:
                        k2 = tuple(int(a) + int(b) for a, b in zip(k, s))
                        new[k2] = new.get(k2, 0) + v
                cnt = new
        return cnt
    res = []
    qt = tuple(int(x) for x in np.asarray(qntot).ravel())
    for i in range(1, nn):
        sub = subtree(i)
        rest = [j for j in range(nn) if j not in sub]
        cs, cc = count(sub), count(rest)
        less = more = False
        for k, v in cs.items():
            k2 = tuple(a - b for a, b in zip(qt, k))
            if k2 in cc:
                less |= v < cc[k2]
                more |= v > cc[k2]
        if less and more:
            res.append(i)
    return res


def gen_mixed_star(rng):
    """root (dummy or label-free spin) with 2..3 children, each child = label carrier + a multi-state
    set with (partly) equal labels; carriers of different children hop.  This is the smallest shape on
    which the complete side of a bond depends on the label block (see mixed_edges)."""
    basis, nodes = [], []
    root_sets = []
    if rng.random() < 0.4:
        basis.append(dict(kind="spin", dof="r", nbas=2, sigmaqn=[[0], [0]]))
        root_sets = [0]
    nodes.append(dict(parent=-1, sets=root_sets))
    nchild = int(rng.choice([2, 2, 3]))
    carriers = []
    for c in range(nchild):
        kind = str(rng.choice(["spin", "elec"]))
        sq = [[0], [1]] if (kind == "elec" or rng.random() < 0.6) else [[1], [0]]
        basis.append(dict(kind=kind, dof=(f"c{c}" if kind == "spin" else ["e", c]), nbas=2, sigmaqn=sq))
        carriers.append(len(basis) - 1)
        sets = [len(basis) - 1]
        if nchild == 2 or rng.random() < 0.6:
            nd = int(rng.integers(2, 4))
            basis.append(dict(kind="me", dofs=[f"m{c}_{j}" for j in range(nd)], nbas=nd,
                              sigmaqn=[[int(rng.integers(0, 2))] for _ in range(nd)]))
            sets.append(len(basis) - 1)
        rng.shuffle(sets)
        nodes.append(dict(parent=0, sets=[int(x) for x in sets]))
    spec = dict(qn_size=1, basis=basis, nodes=nodes, terms=[], family="mixed-star", trivial_qn=False)
    spec["terms"] = gen_terms(rng, spec)
    # make sure carriers of different children hop
    have = any(len(t["dofs"]) == 2 and t["dofs"][0] != t["dofs"][1] for t in spec["terms"])
    i, j = carriers[0], carriers[1]
    (ui, li, di), (uj, lj, dj) = _raise_lower(basis[i], 1)[0], _raise_lower(basis[j], 1)[0]
    c = float(np.round(rng.uniform(0.4, 1.0), 3))
    if np.array_equal(di, dj):
        spec["terms"].append(dict(symbol=f"{ui} {lj}", dofs=[basis[i]["dof"], basis[j]["dof"]], factor=c, qn=[di.tolist(), (-dj).tolist()]))
        spec["terms"].append(dict(symbol=f"{li} {uj}", dofs=[basis[i]["dof"], basis[j]["dof"]], factor=c, qn=[(-di).tolist(), dj.tolist()]))
    else:
        spec["terms"].append(dict(symbol=f"{ui} {uj}", dofs=[basis[i]["dof"], basis[j]["dof"]], factor=c, qn=[di.tolist(), dj.tolist()]))
        spec["terms"].append(dict(symbol=f"{li} {lj}", dofs=[basis[i]["dof"], basis[j]["dof"]], factor=c, qn=[(-di).tolist(), (-dj).tolist()]))
    return spec
