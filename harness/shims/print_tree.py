# shim: the pinned environment lacks the `print_tree` package that renormalizer.tn imports
# (only used by print_as_tree, which no check calls).
class print_tree:
    def __init__(self, *a, **k):
        pass
