"""C20 — bipartite vertex cover valid and minimum.
L1: weak duality + soundness of checkCert (Lean).  L2: (a) certificate validation of the real
outputs of bipartite_vertex_cover for both algorithms, (b) replay of the Koenig closure model on the
implementation's own matching, (c) model's Kuhn matching size vs implementation.  L3: brute force."""
import itertools
import os

import numpy as np

import common
from common import Run, Infra


def enc_graph(g):
    if len(g) == 0:
        return "-"
    return "|".join((",".join(str(v) for v in adj) if len(adj) else ".") for adj in g)


def enc_bools(b):
    b = list(b)
    return "".join("1" if x else "0" for x in b) if b else "-"


def enc_match(m):
    m = list(m)
    return ",".join("n" if x is None else str(int(x)) for x in m) if m else "-"


def all_graphs(nu, nv):
    cells = [(u, v) for u in range(nu) for v in range(nv)]
    for mask in range(1 << len(cells)):
        g = [[] for _ in range(nu)]
        for k, (u, v) in enumerate(cells):
            if mask >> k & 1:
                g[u].append(v)
        yield g


def brute_min_cover(g, nv):
    nu = len(g)
    edges = [(u, v) for u in range(nu) for v in g[u]]
    best = None
    for k in range(0, nu + nv + 1):
        for comb in itertools.combinations(range(nu + nv), k):
            s = set(comb)
            if all(u in s or (nu + v) in s for u, v in edges):
                return k
    return best


def max_matching_size(g, nv):
    # simple independent augmenting-path matching
    match = [-1] * nv

    def aug(u, seen):
        for v in g[u]:
            if v not in seen:
                seen.add(v)
                if match[v] < 0 or aug(match[v], seen):
                    match[v] = u
                    return True
        return False
    return sum(1 for u in range(len(g)) if aug(u, set()))


def call_impl(bm, g, algo):
    """returns dict(kind='ok', cU, cV, matchV, nU, nV) or dict(kind='error', err=class)"""
    rec = {}
    orig = bm.maximum_bipartite_matching

    def wrapped(graph, perm_type="row"):
        r = orig(graph, perm_type=perm_type)
        rec["matchV"] = [None if x == -1 else int(x) for x in r]
        rec["shape"] = graph.shape
        return r
    bm.maximum_bipartite_matching = wrapped
    try:
        cU, cV = bm.bipartite_vertex_cover([list(a) for a in g], algo=algo)
    except AssertionError:
        return dict(kind="error", err="assert")
    except IndexError:
        return dict(kind="error", err="index")
    except Exception as e:  # noqa
        return dict(kind="error", err=type(e).__name__)
    finally:
        bm.maximum_bipartite_matching = orig
    if algo == "Hungarian":
        m = bm.max_bipartite_matching2([list(a) for a in g])
        return dict(kind="ok", cU=[bool(x) for x in cU], cV=[bool(x) for x in cV], matchV=m, nU=len(g), nV=len(m))
    return dict(kind="ok", cU=[bool(x) for x in cU], cV=[bool(x) for x in cV], matchV=rec["matchV"],
                nU=rec["shape"][0], nV=rec["shape"][1])


def main():
    run = Run("C20", level="proof")
    quick = run.tier != "thorough"
    rng = np.random.default_rng(run.seed)
    from renormalizer.lib.bipartite_matching import bipartite_matching as bm

    l1 = run.l1(["RenoVerif/Props/C20.lean"])
    if not l1["build_ok"]:
        raise Infra("hand-written Lean library failed to build/audit: " + str(l1.get("bad")) + l1.get("log", "")[-800:])

    graphs = []
    lim = 3 if quick else 4
    for nu in range(0, lim + 1):
        for nv in range(0, lim + 1):
            if not quick and nu == 4 and nv == 4:
                # 65536 graphs: sample 6000 of them in addition to all smaller shapes
                cells = [(u, v) for u in range(4) for v in range(4)]
                for mask in rng.choice(1 << 16, size=6000, replace=False):
                    g = [[] for _ in range(4)]
                    for k, (u, v) in enumerate(cells):
                        if int(mask) >> k & 1:
                            g[u].append(v)
                    graphs.append((g, nv))
                continue
            for g in all_graphs(nu, nv):
                graphs.append((g, nv))
    nrand = 150 if quick else 1500
    for _ in range(nrand):
        nu, nv = int(rng.integers(1, 10)), int(rng.integers(1, 10))
        p = rng.choice([0.1, 0.25, 0.5, 0.8])
        g = [[v for v in range(nv) if rng.random() < p] for _ in range(nu)]
        if rng.random() < 0.3:   # shuffled adjacency order, duplicates never occur in the caller
            for a in g:
                rng.shuffle(a)
        graphs.append((g, nv))
    exhaustive_upto = lim if quick else 3

    reqs = []
    meta = []
    impl_results = {}
    for gi, (g, nv) in enumerate(graphs):
        eg = enc_graph(g)
        nedges = sum(len(a) for a in g)
        run.count(f"shape<= {max(len(g), nv)}")
        if nedges == 0:
            run.count("edgeless")
        for algo in ("Hungarian", "Hopcroft-Karp"):
            r = call_impl(bm, g, algo)
            impl_results[(gi, algo)] = r
            if r["kind"] == "ok":
                reqs.append(f"cert {eg} {enc_bools(r['cU'])} {enc_bools(r['cV'])} {enc_match(r['matchV'])}")
                meta.append(("cert", gi, algo))
                reqs.append(f"konig {eg} {r['nU']} {r['nV']} {enc_match(r['matchV'])}")
                meta.append(("konig", gi, algo))
            else:
                run.count(f"impl-error:{algo}:{r['err']}")
        reqs.append(f"hung {eg}")
        meta.append(("hung", gi, "Hungarian"))
    replies = common.run_driver("RenoVerif/Driver/C20.lean", reqs)

    n_cert = n_konig = n_hung = 0
    hung_exact = 0
    distinct = set()
    for (kind, gi, algo), req, rep in zip(meta, reqs, replies):
        g, nv = graphs[gi]
        r = impl_results[(gi, algo)]
        nedges = sum(len(a) for a in g)
        if kind == "cert":
            n_cert += 1
            if nedges > 0:
                distinct.add((enc_graph(g), algo))
            if rep != "true":
                # is the property really violated on this graph?
                nvv = max([nv] + [v + 1 for a in g for v in a])
                mn = brute_min_cover(g, nvv) if len(g) + nvv <= 14 else max_matching_size(g, nvv)
                cU, cV = r["cU"], r["cV"]
                covered = all((u < len(cU) and cU[u]) or (v < len(cV) and cV[v]) for u in range(len(g)) for v in g[u])
                size = sum(cU) + sum(cV)
                obj = dict(graph_adjacency=g, nV=nvv, algo=algo, cover_U=cU, cover_V=cV, matching_table=r["matchV"],
                           covers_every_edge=covered, cover_size=size, minimum_cover_size=mn)
                if (not covered) or size != mn:
                    run.violation(f"cover:{algo}:" + ("not-a-cover" if not covered else "not-minimum"), obj)
                else:
                    obj["correspondence"] = "RenoVerif.Cover.checkCert rejected the implementation's (cover, matching) certificate"
                    run.violation(f"corr:cert:{algo}", obj, no_input=True)
        elif kind == "konig":
            n_konig += 1
            exp = f"{enc_bools(r['cU'])} {enc_bools(r['cV'])}"
            if rep != exp:
                run.violation(f"corr:konig:{algo}", dict(correspondence="RenoVerif.Cover.konig vs new_konig on the implementation's own matching",
                                                         graph_adjacency=g, algo=algo, matching_table=r["matchV"], model=rep, impl=exp), no_input=True)
        else:
            n_hung += 1
            parts = rep.split(" ")
            model_match = parts[0]
            if r["kind"] == "ok":
                msz = 0 if model_match == "-" else sum(1 for t in model_match.split(",") if t != "n")
                isz = sum(1 for x in r["matchV"] if x is not None)
                if model_match == enc_match(r["matchV"]):
                    hung_exact += 1
                if msz != isz:
                    run.violation("corr:hungarian-size", dict(correspondence="|maxMatching2 model| vs |max_bipartite_matching2|",
                                                               graph_adjacency=g, model=model_match, impl=r["matchV"]), no_input=True)
    # implementation errors on graphs in the property's quantifier
    for (gi, algo), r in impl_results.items():
        if r["kind"] == "error":
            g, nv = graphs[gi]
            nedges = sum(len(a) for a in g)
            cls = "edgeless" if nedges == 0 else "with-edges"
            if len(g) == 0:
                run.count("no-U-vertices:error")   # degenerate: no graph at all; not counted as a violation
                continue
            run.violation(f"raises:{algo}:{cls}:{r['err']}",
                          dict(graph_adjacency=g, algo=algo, error=r["err"],
                               what="bipartite_vertex_cover raises instead of returning a cover"))
    # L3: brute force on all exhaustively enumerated graphs
    nbf = 0
    for gi, (g, nv) in enumerate(graphs):
        if len(g) + nv > 8:
            continue
        nbf += 1
        mn = brute_min_cover(g, nv)
        for algo in ("Hungarian", "Hopcroft-Karp"):
            r = impl_results[(gi, algo)]
            if r["kind"] != "ok":
                continue
            cU, cV = r["cU"], r["cV"]
            covered = all((u < len(cU) and cU[u]) or (v < len(cV) and cV[v]) for u in range(len(g)) for v in g[u])
            size = sum(cU) + sum(cV)
            if not covered or size != mn:
                run.violation(f"cover:{algo}:" + ("not-a-cover" if not covered else "not-minimum"),
                              dict(graph_adjacency=g, nV=nv, algo=algo, cover_U=cU, cover_V=cV, minimum_cover_size=mn,
                                   covers_every_edge=covered, cover_size=size))
    run.sample(dict(graph_adjacency=graphs[len(graphs) // 2][0], request=reqs[len(reqs) // 2], reply=replies[len(reqs) // 2]))
    run.sample(dict(graph_adjacency=graphs[-1][0], request=reqs[-3], reply=replies[-3]))
    run.cov.update(programs=n_cert + n_konig + n_hung, disagreements_checked=n_cert + n_konig + n_hung,
                   certificates_validated=n_cert, konig_replays=n_konig, hungarian_replays=n_hung,
                   hungarian_matching_tables_identical=hung_exact,
                   evaluations=len(graphs) * 2, distinct_nontrivial=len(distinct), brute_force_graphs=nbf,
                   exhaustive=True,
                   rule=f"all bipartite graphs with |U|,|V| <= {exhaustive_upto} (exhaustive) plus {nrand} random graphs up to 9x9"
                        + ("" if quick else " plus 6000 sampled 4x4 graphs") + "; distinct = distinct (graph, algorithm) with at least one edge")
    # ---- L3: independent search (random/enumerated graphs judged by brute force; bond dimensions of operators built with the
    #      graph algorithms against the minimum cover of every cut, many constructions in one process)
    import search_c20
    ev0, dn0, rule0 = run.cov["evaluations"], run.cov["distinct_nontrivial"], run.cov["rule"]
    run.cov["evaluations"] = 0
    run.cov["distinct_nontrivial"] = 0
    search_c20.search(run, rng, quick)
    run.cov["search_evaluations"] = run.cov["evaluations"]
    run.cov["evaluations"] += ev0
    run.cov["distinct_nontrivial"] += dn0
    run.cov["rule"] = rule0 + " || search: " + run.cov["rule"]
    run.assumptions += ["SciPy maximum_bipartite_matching is a black box: its recorded output is validated as a matching by checkCert",
                        "CPython set.pop order in new_konig is abstracted by a list (closure result is order independent)"]
    return run.finish()


if __name__ == "__main__":
    common.main_wrapper(main)
