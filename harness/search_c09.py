"""C09 failing-input search: real-time evolution converges to exp(-iHt) psi for every scheme.

Oracle: dense `scipy.linalg.expm(-1j*t*H) @ psi` with H assembled from matrices written in
lib_evolve.py (not from the library); time-dependent H: dense DOP853 integration.

Blocks (each reports with its own signature family)
  order      error vs dense over step halvings, observed order >= advertised - 0.5
             (observed = best of the three slopes among 3 step sizes; errors below the round-off /
             solver floor are inconclusive and only counted)                       "<scheme>:order"
  exact      TDVP-PS / PS2 at full bond dimension are exact for any step        "<scheme>:full-bond"
  vmf        VMF variants reproduce the dense result to the ODE tolerance        "<scheme>:accuracy"
  td         time-dependent callables (RK schemes, VMF)                          "<scheme>:td:order"
  solver     krylov vs RK45 local integrator                                    "<scheme>:solver-dependence"
  adaptive   adaptive vs dense, one call vs two calls                          "<scheme>:adaptive..."
  conserve   TDVP-PS norm / energy at ANY bond dimension, self-convergence order  "tdvp_ps:norm" ...
  bond       bond limits (scalar and per-bond)                                  "<scheme>:bond-limit"
  gauge      result independent of the gauge of the input                       "<scheme>:gauge:<class>"
  switch     sequences of calls switching scheme and step                       "switch:..."
  shared     the same EvolveConfig object given to successive calls             "<scheme>:shared-config..."
  overcomplete  inputs whose bonds exceed the exact rank                          "<scheme>:over-complete-bonds:..."
"""
import time
import traceback

import numpy as np
import scipy.linalg
from scipy.integrate import solve_ivp

import lib_evolve as L
from lib_evolve import (EvolveConfig, EvolveMethod, CompressConfig, CompressCriteria, Mps, MpDm,
                        dense_state, set_cfg, opnorm)
from renormalizer.utils.rk import method_list, RungeKutta

M = EvolveMethod


# ----------------------------------------------------------------------------- scheme table
def make_cfg(spec, imag=False):
    """spec: dict(kind=..., ...) -> fresh EvolveConfig (never shared between runs unless asked)"""
    k = spec["kind"]
    gd = spec.get("guess_dt", 0.1)
    kw = dict(adaptive=spec.get("adaptive", False), guess_dt=(-1j * gd if imag else gd),
              adaptive_rtol=spec.get("adaptive_rtol", 5e-4))
    if k == "pc":
        cfg = EvolveConfig(M.prop_and_compress, taylor_order=spec.get("taylor"), **kw)
    elif k == "tdrk4":
        cfg = EvolveConfig(M.prop_and_compress_tdrk4, **kw)
    elif k == "tdrk":
        cfg = EvolveConfig(M.prop_and_compress_tdrk, rk_solver=spec["rk"], **kw)
    elif k in ("ps", "ps2", "cmf"):
        meth = {"ps": M.tdvp_ps, "ps2": M.tdvp_ps2, "cmf": M.tdvp_mu_cmf}[k]
        cfg = EvolveConfig(meth, ivp_solver=spec.get("solver", "krylov"), ivp_rtol=spec.get("ivp_rtol", 1e-10),
                           ivp_atol=spec.get("ivp_atol", 1e-12), **kw)
        if k == "cmf":
            cfg.tdvp_cmf_midpoint = spec.get("midpoint", True)
            cfg.tdvp_cmf_c_trapz = spec.get("trapz", False)
    elif k in ("vmf", "muvmf"):
        cfg = EvolveConfig(M.tdvp_vmf if k == "vmf" else M.tdvp_mu_vmf, ivp_rtol=spec.get("ivp_rtol", 1e-8),
                           ivp_atol=spec.get("ivp_atol", 1e-10), force_ovlp=spec.get("force_ovlp", True),
                           reg_epsilon=spec.get("reg_epsilon", 1e-10), **kw)
        cfg.vmf_auto_switch = spec.get("auto_switch", False)
    else:
        raise ValueError(k)
    return cfg


def name_of(spec):
    k = spec["kind"]
    if k == "pc":
        return f"P&C-taylor{spec.get('taylor') or ''}"
    if k == "tdrk4":
        return "P&C-tdrk4"
    if k == "tdrk":
        return f"P&C-tdrk:{spec['rk']}"
    if k == "cmf":
        v = "trapz" if spec.get("trapz") else ("midpoint" if spec.get("midpoint", True) else "first-order")
        return f"tdvp_mu_cmf:{v}:{spec.get('solver', 'krylov')}"
    if k in ("ps", "ps2"):
        return f"tdvp_{k}:{spec.get('solver', 'krylov')}"
    return f"tdvp_{'mu_' if k == 'muvmf' else ''}vmf:{'ovlp' if spec.get('force_ovlp', True) else 'noovlp'}"


def advertised(spec):
    k = spec["kind"]
    if k == "pc":
        return spec.get("taylor") or 4
    if k == "tdrk4":
        return 4
    if k == "tdrk":
        return RungeKutta(spec["rk"]).order[0]
    if k == "cmf":
        return 2 if spec.get("midpoint", True) else 1
    return None


PC_SPECS = ([dict(kind="pc"), dict(kind="tdrk4")]
            + [dict(kind="tdrk", rk=r) for r in method_list])
EMBEDDED = ("RKF45", "Cash-Karp45")


def with_single_step_embedded(spec):
    """the two embedded pairs only run with adaptive=True: a huge tolerance and guess_dt make every
    call one accepted step of the requested size with the higher-order weights"""
    if spec["kind"] == "tdrk" and spec["rk"] in EMBEDDED:
        s = dict(spec)
        s.update(adaptive=True, adaptive_rtol=1e6, guess_dt=1e3)
        return s
    return spec


# ----------------------------------------------------------------------------- helpers
class CallTimeout(Exception):
    pass


class time_limit:
    """wall-clock guard around one library call (stiff regularised EOM can take minutes before
    failing); a timeout is counted, never reported"""

    def __init__(self, seconds):
        self.seconds = seconds

    def _raise(self, *a):
        raise CallTimeout()

    def __enter__(self):
        import signal
        self._old = signal.signal(signal.SIGALRM, self._raise)
        signal.setitimer(signal.ITIMER_REAL, self.seconds)

    def __exit__(self, *a):
        import signal
        signal.setitimer(signal.ITIMER_REAL, 0)
        signal.signal(signal.SIGALRM, self._old)
        return False


class Ctx:
    def __init__(self, run, rng, quick):
        self.run, self.rng, self.quick = run, rng, quick
        self.t0 = time.time()
        self.n_eval = 0
        self.distinct = set()
        self.budget = 50.0 if quick else 540.0
        self.timing = {}

    def left(self):
        return self.budget - (time.time() - self.t0)

    def evald(self, key, nontrivial=True):
        self.n_eval += 1
        if nontrivial:
            self.distinct.add(key)


def evolve_n(mp, mpo_or_fn, T, N, spec, m, normalize=False, imag=False, criteria="fixed", shared_cfg=None):
    """N successive calls of step T/N.  mpo_or_fn: Mpo, or fn(t_abs)->Mpo for time-dependent H"""
    cur = mp.copy()
    set_cfg(cur, shared_cfg if shared_cfg is not None else make_cfg(spec, imag), m, criteria)
    dt = T / N
    for i in range(N):
        if shared_cfg is not None:
            cur.evolve_config = shared_cfg
        if callable(mpo_or_fn):
            t_start = i * dt
            op = (lambda t, *a, _t0=t_start, **k: mpo_or_fn(_t0 + t))
        else:
            op = mpo_or_fn
        cur = cur.evolve(op, (-1j * dt if imag else dt), normalize=normalize)
    return cur


def slopes(errs):
    e1, e2, e3 = errs
    with np.errstate(all="ignore"):
        return [float(np.log2(e1 / e2)), float(np.log2(e2 / e3)), float(np.log2(e1 / e3) / 2)]


def order_verdict(errs, p, floor):
    """'ok' / 'floor' (inconclusive: converged to round-off) / 'bad'"""
    if not np.all(np.isfinite(errs)):
        return "bad", None
    if errs[2] <= floor or errs[1] <= floor:
        # already converged to the floor: fine provided the coarse error is not large
        return "floor", None
    s = slopes(errs)
    obs = max(s)
    return ("ok" if obs >= p - 0.5 else "bad"), obs


def replay_base(tm, v0, spec, **kw):
    d = dict(model=tm.describe(), psi0=L.tolist(v0), scheme=spec)
    d.update(kw)
    return d


def state_for(ctx, tm, qntot, cplx, gauge="left"):
    psi = L.full_rank_mps(tm, ctx.rng, qntot, cplx=cplx)
    if psi is None:
        return None
    if gauge == "right":
        psi.ensure_right_canonical()
    return psi


def gauge_limit(spec, err0):
    """how far the error of another gauge / bond padding of the SAME vector may be from the error of
    the left-canonical copy.  P&C, CMF, VMF: the answer is a function of the vector only (3x slack for
    the ODE tolerances).  PS / PS2 in a symmetry sector are not exact and their second-order error
    constant depends on the sweep direction and the manifold: factor 10 there."""
    if spec["kind"] in ("ps", "ps2") and err0 > 1e-7:
        return 10 * err0 + 1e-6
    return 3 * err0 + 1e-6


def exc_sig(e):
    tb = traceback.extract_tb(e.__traceback__)[-1]
    return f"{type(e).__name__}@{tb.name}"


# ----------------------------------------------------------------------------- blocks
def timed(fn):
    def wrapper(ctx, *a, **k):
        t = time.time()
        try:
            return fn(ctx, *a, **k)
        finally:
            ctx.timing[fn.__name__] = ctx.timing.get(fn.__name__, 0.0) + time.time() - t
    wrapper.__name__ = fn.__name__
    return wrapper


@timed
def block_order(ctx, tm, psi, as_mpdm=False):
    """P&C family (all Taylor / RK tableaux), CMF variants: slope test; PS/PS2: exactness; VMF: accuracy"""
    run, rng = ctx.run, ctx.rng
    H = tm.dense_h()
    nh = opnorm(H)
    mpo = tm.mpo()
    big = int(max(L.exact_bond_dims(tm)))
    if as_mpdm:
        big = big * big
    v0 = dense_state(psi)
    T = 1.0 / nh
    U = scipy.linalg.expm(-1j * T * H)
    ref = U @ v0
    moved = np.linalg.norm(ref - v0) > 0.05
    label = tm.label + (":mpdm" if as_mpdm else "") + (":complex" if np.iscomplexobj(v0) else ":real")

    specs = [with_single_step_embedded(s) for s in PC_SPECS]
    specs.append(dict(kind="pc", taylor=int(rng.integers(1, 7))))
    if ctx.quick:
        # all schemes are visited over the seeds; every run does Taylor, tdrk4, and 4 tableaux
        tabs = [s for s in specs if s["kind"] == "tdrk"]
        keep = rng.choice(len(tabs), size=4, replace=False)
        specs = [s for s in specs if s["kind"] != "tdrk"] + [tabs[i] for i in keep]
    criteria = str(rng.choice(["fixed", "both", "threshold"]))
    normalize = bool(rng.random() < 0.5)
    for spec in specs:
        p = advertised(spec)
        nm = name_of(spec)
        # smaller steps for the high orders: a defect in the k-th Taylor coefficient only dominates the
        # legitimate (k+1)-th order term when ||H|| dt is small
        Ns = (4, 8, 16) if p >= 4 else (2, 4, 8)
        try:
            errs = []
            for N in Ns:
                out = evolve_n(psi, mpo, T, N, spec, big, normalize=normalize, criteria=criteria)
                errs.append(float(np.linalg.norm(dense_state(out) - ref)))
        except Exception as e:  # the property promises a result for these inputs
            run.violation(f"{nm}:order:exception:{exc_sig(e)}", replay_base(tm, v0, spec, T=T, error=repr(e)))
            continue
        verdict, obs = order_verdict(errs, p, 2e-11 * max(1.0, np.linalg.norm(v0)))
        run.count(f"order:{nm}:{verdict}")
        ctx.evald(("order", label, nm), moved)
        if verdict == "bad":
            run.violation(f"{nm}:order", replay_base(tm, v0, spec, T=T, steps=list(Ns), errors=errs,
                                                      observed_order=obs, advertised=p, criteria=criteria,
                                                      normalize=normalize, mpdm=as_mpdm))
    run.sample(dict(block="order", model=tm.label, dims=tm.dims, normH=nh, T=T, mpdm=as_mpdm, criteria=criteria))


@timed
def block_tdvp(ctx, tm, psi, as_mpdm=False):
    """TDVP family on a full-rank state held at full bond dimension"""
    run, rng = ctx.run, ctx.rng
    H = tm.dense_h()
    nh = opnorm(H)
    mpo = tm.mpo()
    big = int(max(psi.bond_dims))
    v0 = dense_state(psi)
    nv = np.linalg.norm(v0)
    T = 1.0 / nh
    ref = scipy.linalg.expm(-1j * T * H) @ v0
    moved = np.linalg.norm(ref - v0) > 0.05
    label = tm.label + (":mpdm" if as_mpdm else "") + (":complex" if np.iscomplexobj(v0) else ":real")
    normalize = bool(rng.random() < 0.5)

    # --- PS / PS2: symmetric second-order splitting.  Without quantum numbers and at full bond
    # dimension consecutive projectors coincide pairwise, the splitting is exact for any step and the
    # error sits at the solver floor ("floor"); in a symmetry sector it is second order.
    for kind in ("ps", "ps2"):
        for solver, floor in (("krylov", 1e-8), ("RK45", 1e-7)):
            spec = dict(kind=kind, solver=solver)
            nm = name_of(spec)
            try:
                errs = []
                for N in (1, 2, 4):
                    out = evolve_n(psi, mpo, T, N, spec, max(big, 64), normalize=normalize)
                    errs.append(float(np.linalg.norm(dense_state(out) - ref)))
            except Exception as e:
                run.violation(f"{nm}:order:exception:{exc_sig(e)}", replay_base(tm, v0, spec, T=T, error=repr(e)))
                continue
            verdict, obs = order_verdict(errs, 2, floor * nv)
            ctx.evald(("order", label, nm), moved)
            run.count(f"order:{nm}:{verdict}")
            if verdict == "bad":
                run.violation(f"{nm}:order", replay_base(tm, v0, spec, T=T, steps=[1, 2, 4], errors=errs, observed_order=obs,
                                                          advertised=2, normalize=normalize, mpdm=as_mpdm, bond=list(psi.bond_dims)))
            if kind == "ps" and list(out.bond_dims) != list(psi.bond_dims):
                run.violation("tdvp_ps:bond-dims-changed", replay_base(tm, v0, spec, before=list(psi.bond_dims),
                                                                        after=list(out.bond_dims)))

    # --- CMF: second order with midpoint / trapezoid, first order without (RK45 local solver)
    for var in (dict(midpoint=True), dict(midpoint=False), dict(midpoint=True, trapz=True)):
        spec = dict(kind="cmf", solver="RK45", **var)
        nm = name_of(spec)
        p = advertised(spec)
        try:
            errs = []
            for N in (2, 4, 8):
                out = evolve_n(psi, mpo, T, N, spec, big, normalize=normalize)
                errs.append(float(np.linalg.norm(dense_state(out) - ref)))
        except Exception as e:
            run.violation(f"{nm}:order:exception:{exc_sig(e)}", replay_base(tm, v0, spec, T=T, error=repr(e)))
            continue
        # interior sites are integrated by scipy RK45 with its default rtol=1e-3: floor 2e-5
        verdict, obs = order_verdict(errs, p, 2e-5 * nv)
        ctx.evald(("order", label, nm), moved)
        run.count(f"order:{nm}:{verdict}")
        if verdict == "bad":
            run.violation(f"{nm}:order", replay_base(tm, v0, spec, T=T, steps=[2, 4, 8], errors=errs,
                                                      observed_order=obs, advertised=p, mpdm=as_mpdm))

    # --- VMF variants: one RK45 integration of the whole EOM; error set by the tolerance
    variants = [dict(kind=k, force_ovlp=fo) for k in ("vmf", "muvmf") for fo in (True, False)]
    if ctx.quick:
        variants = [variants[i] for i in rng.choice(4, size=2, replace=False)]
    for spec in variants:
        spec = dict(spec, ivp_rtol=1e-8, ivp_atol=1e-10, auto_switch=bool(rng.random() < 0.5))
        nm = name_of(spec)
        N = int(rng.integers(1, 3))
        try:
            out = evolve_n(psi, mpo, T, N, spec, big, normalize=normalize)
            err = float(np.linalg.norm(dense_state(out) - ref))
        except Exception as e:
            run.violation(f"{nm}:accuracy:exception:{exc_sig(e)}", replay_base(tm, v0, spec, T=T, error=repr(e)))
            continue
        ctx.evald(("vmf", label, nm), moved)
        run.count(f"vmf:{nm}")
        if not err <= 1e-5 * nv:
            run.violation(f"{nm}:accuracy", replay_base(tm, v0, spec, T=T, steps=N, error=err, tol=1e-5, mpdm=as_mpdm))


def td_reference(H0, H1, f, T, v0):
    shape = v0.shape
    sol = solve_ivp(lambda t, y: (-1j * ((H0 + f(t) * H1) @ y.reshape(shape))).ravel(), (0, T),
                    v0.astype(complex).ravel(), method="DOP853", rtol=1e-12, atol=1e-14)
    return sol.y[:, -1].reshape(shape)


@timed
def block_td(ctx, tm, psi):
    """H(t) = H0 + cos(w t + phi) H1 through a callable (time local to each call, as documented)"""
    run, rng = ctx.run, ctx.rng
    n1 = max(1, len(tm.terms) // 3)
    idx = set(rng.choice(len(tm.terms), size=n1, replace=False).tolist())
    # keep H1 Hermitian: take both members of a hopping pair
    for i, (f_, facs) in enumerate(tm.terms):
        syms = [s for _, s in facs]
        if i in idx and any(s in ("sigma_+", "sigma_-", r"a^\dagger", "a") for s in syms):
            for j, (g_, facs2) in enumerate(tm.terms):
                if sorted(a for a, _ in facs2) == sorted(a for a, _ in facs) and j != i and \
                        any(s in ("sigma_+", "sigma_-", r"a^\dagger", "a") for _, s in facs2):
                    idx.add(j)
    t1 = [tm.terms[i] for i in sorted(idx)]
    t0 = [tm.terms[i] for i in range(len(tm.terms)) if i not in idx]
    H0, H1 = tm.dense_terms(t0), tm.dense_terms(t1)
    if np.linalg.norm(H1 - H1.conj().T) > 1e-12 or np.linalg.norm(H1) < 1e-6:
        run.count("td:skipped-nonhermitian-split")
        return
    nh = opnorm(H0) + opnorm(H1)
    T = 1.0 / nh
    w = float(rng.uniform(2.0, 6.0)) * nh
    phi = float(rng.uniform(0, 2 * np.pi))
    amp = float(rng.uniform(0.8, 1.5))

    def f(t):
        return amp * np.cos(w * t + phi)

    def h_at(t):
        terms = list(t0) + [(c * f(t), facs) for c, facs in t1]
        return tm.mpo(terms=terms)

    v0 = dense_state(psi)
    ref = td_reference(H0, H1, f, T, v0)
    big = int(max(L.exact_bond_dims(tm)))
    specs = [dict(kind="tdrk4")] + [with_single_step_embedded(dict(kind="tdrk", rk=r)) for r in method_list]
    if ctx.quick:
        keep = rng.choice(len(specs) - 1, size=4, replace=False) + 1
        specs = [specs[0]] + [specs[i] for i in keep]
    label = tm.label + ":td"
    for spec in specs:
        p = advertised(spec)
        nm = name_of(spec)
        try:
            errs = []
            for N in (2, 4, 8):
                out = evolve_n(psi, h_at, T, N, spec, big)
                errs.append(float(np.linalg.norm(dense_state(out) - ref)))
        except Exception as e:
            run.violation(f"{nm}:td:exception:{exc_sig(e)}", replay_base(tm, v0, spec, T=T, error=repr(e)))
            continue
        verdict, obs = order_verdict(errs, p, 5e-11)
        ctx.evald(("td", label, nm))
        run.count(f"td:{nm}:{verdict}")
        if verdict == "bad":
            run.violation(f"{nm}:td:order", replay_base(tm, v0, spec, T=T, steps=[2, 4, 8], errors=errs, observed_order=obs,
                                                         advertised=p, h1_terms=sorted(idx), w=w, phi=phi, amp=amp))
    # adaptive embedded pair with several sub-steps inside one call: the callable must be
    # evaluated at (time already covered inside the call) + c_i * tau
    rk = str(rng.choice(EMBEDDED))
    rtol = 1e-5
    spec = dict(kind="tdrk", rk=rk, adaptive=True, adaptive_rtol=rtol, guess_dt=T / 3)
    nm = name_of(spec)
    try:
        T2 = 1.5 * T
        ref2 = td_reference(H0, H1, f, T2, v0)
        out = evolve_n(psi, h_at, T2, 1, spec, big)
        err = float(np.linalg.norm(dense_state(out) - ref2))
        ctx.evald(("td", label, nm, "adaptive"))
        run.count(f"td:{nm}:adaptive")
        if not err <= 400 * rtol:
            sig = f"{nm}:td:adaptive-vs-dense"
            # the rejected-attempt defect of the adaptive loop also shows here: classify
            try:
                small = evolve_n(psi, h_at, T2, 1, dict(spec, guess_dt=T2 / 64), big)
                if float(np.linalg.norm(dense_state(small) - ref2)) <= 400 * rtol:
                    sig = f"{nm}:adaptive:after-rejected-attempt:wrong-result"
            except Exception:
                pass
            run.violation(sig, replay_base(tm, v0, spec, T=T2, error=err, h1_terms=sorted(idx), w=w, phi=phi, amp=amp))
    except Exception as e:
        run.violation(f"{nm}:td:adaptive:exception:{exc_sig(e)}", replay_base(tm, v0, spec, T=T, error=repr(e)))
    # VMF with a callable (needs a full-rank state)
    spec = dict(kind=str(rng.choice(["vmf", "muvmf"])), force_ovlp=bool(rng.random() < 0.5), ivp_rtol=1e-8, ivp_atol=1e-10)
    nm = name_of(spec)
    try:
        out = evolve_n(psi, h_at, T, 1, spec, int(max(psi.bond_dims)))
        err = float(np.linalg.norm(dense_state(out) - ref))
        ctx.evald(("td", label, nm))
        run.count(f"td:{nm}")
        if not err <= 1e-5:
            run.violation(f"{nm}:td:accuracy", replay_base(tm, v0, spec, T=T, error=err, h1_terms=sorted(idx), w=w, phi=phi, amp=amp))
    except Exception as e:
        run.violation(f"{nm}:td:exception:{exc_sig(e)}", replay_base(tm, v0, spec, T=T, error=repr(e)))


@timed
def block_solver(ctx, tm, psi, m_trunc=None):
    """krylov vs RK45 (tight tolerances) as local integrator: same answer, at any bond dimension"""
    run, rng = ctx.run, ctx.rng
    H = tm.dense_h()
    nh = opnorm(H)
    mpo = tm.mpo()
    v0 = dense_state(psi)
    big = int(max(psi.bond_dims))
    for kind, scale in (("ps", 1.5), ("ps2", 1.5), ("cmf", 1.5), ("cmf", 0.5)):
        T = scale / nh
        outs = {}
        spec = None
        try:
            for solver in ("krylov", "RK45"):
                spec = dict(kind=kind, solver=solver, ivp_rtol=1e-10, ivp_atol=1e-12)
                outs[solver] = dense_state(evolve_n(psi, mpo, T, 1, spec, big))
        except Exception as e:
            run.violation(f"{name_of(spec)}:solver:exception:{exc_sig(e)}", replay_base(tm, v0, spec, T=T, error=repr(e)))
            continue
        d = float(np.linalg.norm(outs["krylov"] - outs["RK45"]))
        ctx.evald(("solver", tm.label, kind, scale, m_trunc))
        run.count(f"solver:{kind}")
        if not d <= 1e-5 * np.linalg.norm(v0):
            base = {"ps": "tdvp_ps", "ps2": "tdvp_ps2", "cmf": "tdvp_mu_cmf"}[kind]
            ref = scipy.linalg.expm(-1j * T * H) @ v0
            run.violation(f"{base}:solver-dependence",
                          replay_base(tm, v0, dict(kind=kind), T=T, normH_T=scale, krylov_vs_rk45=d,
                                      err_krylov=float(np.linalg.norm(outs["krylov"] - ref)),
                                      err_rk45=float(np.linalg.norm(outs["RK45"] - ref)), bond=list(psi.bond_dims)))


@timed
def block_adaptive(ctx, tm, psi):
    run, rng = ctx.run, ctx.rng
    H = tm.dense_h()
    nh = opnorm(H)
    mpo = tm.mpo()
    v0 = dense_state(psi)
    nv = np.linalg.norm(v0)
    big = int(max(L.exact_bond_dims(tm)))
    T = float(rng.uniform(1.5, 2.0)) / nh
    ref = scipy.linalg.expm(-1j * T * H) @ v0
    rtol = float(10 ** rng.uniform(-6, -4))
    cands = [dict(kind="pc"), dict(kind="tdrk", rk="RKF45"), dict(kind="tdrk", rk="Cash-Karp45"),
             dict(kind="ps", solver="krylov"), dict(kind="ps2", solver="krylov"), dict(kind="cmf", solver="RK45")]
    # guess_dt: smaller than the target (sub-steps) / larger than the target (first attempt rejected)
    guesses = [float(T * rng.choice([0.28, 0.45, 3.0])) for _ in cands]
    guesses[0] = 3.0 * T        # the Taylor scheme always meets a rejected first attempt (its sub-step variant runs in block_switch)
    # every run: one embedded pair whose first attempt (one step of the whole interval) must be rejected
    guesses[1 + int(rng.integers(0, 2))] = 3.0 * T
    if ctx.quick:
        keep = sorted(set([0, 1, 2] + rng.choice([3, 4, 5], size=1).tolist()))
        cands, guesses = [cands[i] for i in keep], [guesses[i] for i in keep]
    for c, g in zip(cands, guesses):
        spec = dict(c, adaptive=True, adaptive_rtol=rtol, guess_dt=g)
        nm = name_of(spec)
        try:
            with time_limit(40.0):
                one = evolve_n(psi, mpo, T, 1, spec, big)
                two = evolve_n(psi, mpo, T, 2, spec, big)
            e1 = float(np.linalg.norm(dense_state(one) - ref))
            e2 = float(np.linalg.norm(dense_state(two) - ref))
        except CallTimeout:
            # a 3-4 site call normally takes well under a second: the step controller does not terminate
            run.violation(f"{nm}:adaptive:no-result-within-40s", replay_base(tm, v0, spec, T=T))
            continue
        except Exception as e:
            run.violation(f"{nm}:adaptive:exception:{exc_sig(e)}", replay_base(tm, v0, spec, T=T, error=repr(e)))
            continue
        ctx.evald(("adaptive", tm.label, nm, g > T))
        run.count(f"adaptive:{nm}:{'guess>T' if g > T else 'guess<T'}")
        # accepted steps may carry an estimated local error up to 2^p * rtol (p >= 0.5 accepted);
        # at most ~12 accepted steps here
        tol = 400 * rtol * nv
        if not (e1 <= tol and e2 <= tol):
            # classify: does the same call succeed when the initial guess is so small that no
            # attempt is ever rejected?
            sig = f"{nm}:adaptive-vs-dense"
            try:
                small = evolve_n(psi, mpo, T, 1, dict(spec, guess_dt=T / 64), big)
                e_small = float(np.linalg.norm(dense_state(small) - ref))
                if e_small <= tol:
                    sig = f"{nm}:adaptive:after-rejected-attempt:wrong-result"
            except Exception:
                pass
            run.violation(sig, replay_base(tm, v0, spec, T=T, err_one_call=e1, err_two_calls=e2, tol=tol))
        gd = one.evolve_config.guess_dt
        if not (np.isfinite(abs(gd)) and abs(gd) > 0 and not np.iscomplex(gd)):
            run.violation(f"{nm}:adaptive:guess_dt", replay_base(tm, v0, spec, T=T, guess_dt=str(gd)))


@timed
def block_adaptive_prefactor(ctx, tm, psi):
    """the adaptive step controller works with RELATIVE errors: how the norm of the state is split between the scalar
    prefactor (`coeff`) and the tensors must not matter (constant-mean-field scheme: the step size always matters)"""
    run, rng = ctx.run, ctx.rng
    H = tm.dense_h()
    nh = opnorm(H)
    mpo = tm.mpo()
    big = int(max(L.exact_bond_dims(tm)))
    T = float(rng.uniform(1.5, 2.0)) / nh
    rtol = float(10 ** rng.uniform(-5, -4))
    spec = dict(kind="cmf", solver="RK45", adaptive=True, adaptive_rtol=rtol, guess_dt=float(T * rng.choice([0.45, 3.0])))
    nm = name_of(spec)
    c = complex(rng.choice([2000.0, 40.0, 1.0 / 40, 5e-4]))
    try:
        with time_limit(60.0):
            plain = evolve_n(psi, mpo, T, 1, spec, big)
            scaled_in = psi.copy()
            scaled_in.coeff = complex(psi.coeff) * c
            scaled = evolve_n(scaled_in, mpo, T, 1, spec, big)
    except CallTimeout:
        run.violation(f"{nm}:adaptive:prefactor:no-result-within-60s", replay_base(tm, dense_state(psi), spec, T=T, prefactor=str(c)))
        return
    except Exception as e:
        run.violation(f"{nm}:adaptive:prefactor:exception:{exc_sig(e)}", replay_base(tm, dense_state(psi), spec, T=T, prefactor=str(c), error=repr(e)))
        return
    v0 = dense_state(psi)
    nv = np.linalg.norm(v0)
    ref = scipy.linalg.expm(-1j * T * H) @ v0
    e_plain = float(np.linalg.norm(dense_state(plain) - ref))
    e_scaled = float(np.linalg.norm(dense_state(scaled) / c - ref))
    ctx.evald(("adaptive-prefactor", tm.label, nm, abs(c) > 1))
    run.count(f"adaptive-prefactor:{'large' if abs(c) > 1 else 'small'}")
    tol = 400 * rtol * nv
    # the controller sees relative errors only: both runs take the same steps and agree to rounding
    diff = float(np.linalg.norm(dense_state(scaled) / c - dense_state(plain)))
    if (e_plain <= tol and not e_scaled <= tol) or diff > 1e-7 * nv:
        run.violation(f"{nm}:adaptive:result-depends-on-prefactor",
                      replay_base(tm, v0, spec, T=T, prefactor=str(c), err_coeff_1=e_plain, err_with_prefactor=e_scaled, tol=tol,
                                  difference_between_the_two_runs=diff))


@timed
def block_conserve(ctx, tm, qntot):
    """TDVP-PS conserves norm and energy to solver precision at ANY bond dimension; second-order
    self-convergence on the truncated manifold"""
    run, rng = ctx.run, ctx.rng
    H = tm.dense_h()
    nh = opnorm(H)
    mpo = tm.mpo()
    exact = L.exact_bond_dims(tm)
    for m in sorted(set([1, 2, int(rng.integers(2, max(3, max(exact))))])):
        psi = L.random_mps(tm, rng, qntot, m)
        if psi is None:
            run.count("conserve:random-failed")
            continue
        scale_in = float(rng.uniform(0.5, 2.0))
        psi = psi.scale(scale_in)
        if rng.random() < 0.5:
            psi = psi.to_complex()
            psi = psi.scale(np.exp(1j * rng.uniform(0, 6)))
        v0 = dense_state(psi)
        n0 = float(np.linalg.norm(v0))
        e0 = float((v0.conj() @ H @ v0).real)
        for solver, tol in (("krylov", 1e-9), ("RK45", 1e-6)):
            spec = dict(kind="ps", solver=solver, ivp_rtol=1e-10, ivp_atol=1e-12)
            dt = float(rng.uniform(0.2, 1.0)) / nh
            nsteps = int(rng.integers(2, 5))
            try:
                cur = psi.copy()
                set_cfg(cur, make_cfg(spec), max(m, 2))
                worst_n = worst_e = 0.0
                for _ in range(nsteps):
                    cur = cur.evolve(mpo, dt, normalize=False)
                    v = dense_state(cur)
                    worst_n = max(worst_n, abs(float(np.linalg.norm(v)) - n0))
                    worst_e = max(worst_e, abs(float((v.conj() @ H @ v).real) - e0))
            except Exception as e:
                run.violation(f"tdvp_ps:conserve:exception:{exc_sig(e)}", replay_base(tm, v0, spec, m=m, error=repr(e)))
                continue
            ctx.evald(("conserve", tm.label, m, solver))
            run.count(f"conserve:m={min(m, 3)}:{solver}")
            if not worst_n <= tol * n0:
                run.violation("tdvp_ps:norm-drift", replay_base(tm, v0, spec, m=m, bond=list(psi.bond_dims), dt=dt,
                                                                steps=nsteps, drift=worst_n, tol=tol * n0))
            if not worst_e <= tol * nh * n0 * n0:
                run.violation("tdvp_ps:energy-drift", replay_base(tm, v0, spec, m=m, bond=list(psi.bond_dims), dt=dt,
                                                                  steps=nsteps, drift=worst_e, tol=tol * nh * n0 * n0))
            if max(cur.bond_dims) > max(psi.bond_dims):
                run.violation("tdvp_ps:bond-dims-changed", replay_base(tm, v0, spec, before=list(psi.bond_dims),
                                                                        after=list(cur.bond_dims)))


@timed
def block_bond(ctx, tm, psi):
    """no scheme lets bond dimensions exceed the configured limit (scalar and per-bond limits)"""
    run, rng = ctx.run, ctx.rng
    mpo = tm.mpo()
    nh = opnorm(tm.dense_h())
    n = len(tm.sites)
    v0 = dense_state(psi)
    specs = [dict(kind="pc"), dict(kind="tdrk4"), dict(kind="tdrk", rk=str(rng.choice(method_list[:8]))),
             dict(kind="ps2", solver="krylov"), dict(kind="ps2", solver="RK45", ivp_rtol=1e-6, ivp_atol=1e-8),
             dict(kind="pc", adaptive=True, adaptive_rtol=1e-3, guess_dt=0.5 / nh),
             dict(kind="tdrk", rk="Cash-Karp45", adaptive=True, adaptive_rtol=1e-3, guess_dt=0.5 / nh)]
    for spec in specs:
        per_bond = bool(rng.random() < 0.5)
        if per_bond:
            lim = np.array([1] + [int(rng.integers(1, 4)) for _ in range(n - 1)] + [1])
        else:
            lim = np.full(n + 1, int(rng.integers(1, 3)))
        nm = name_of(spec)
        start = psi.copy()
        start.compress_config = CompressConfig(CompressCriteria.fixed, max_bonddim=int(max(lim)))
        start.compress_config.set_bonddim(n + 1)
        start.compress_config.max_dims = lim.copy()
        try:
            start = start.canonicalise().compress()
            cur = start
            cur.evolve_config = make_cfg(spec)
            worst = None
            for _ in range(2):
                cur = cur.evolve(mpo, 0.4 / nh)
                bd = np.array(cur.bond_dims)
                if np.any(bd > lim):
                    worst = bd.tolist()
        except Exception as e:
            run.violation(f"{nm}:bond-limit:exception:{exc_sig(e)}", replay_base(tm, v0, spec, limits=lim.tolist(), error=repr(e)))
            continue
        ctx.evald(("bond", tm.label, nm, per_bond))
        run.count(f"bond:{nm}:{'per-bond' if per_bond else 'scalar'}")
        if worst is not None:
            run.violation(f"{nm}:bond-limit", replay_base(tm, v0, spec, limits=lim.tolist(), bond_dims=worst))


GAUGE_SPECS = [dict(kind="pc"), dict(kind="tdrk", rk="Kutta_RK3"), dict(kind="ps", solver="krylov"),
               dict(kind="ps2", solver="krylov"), dict(kind="cmf", solver="RK45"),
               dict(kind="vmf", force_ovlp=True), dict(kind="vmf", force_ovlp=False),
               dict(kind="muvmf", force_ovlp=True), dict(kind="muvmf", force_ovlp=False)]


def gauge_variants(ctx, tm, psi):
    """the same vector in other gauges; every variant respects the library's rest invariant
    (to_right & qnidx==0, or not to_right & qnidx==n-1) except 'mid-centre' (canonicalise(stop_idx))"""
    rng = ctx.rng
    n = len(tm.sites)
    m = psi.copy()
    m.ensure_right_canonical()
    yield "right-canonical", m
    m = psi.copy()
    m.ensure_left_canonical()
    yield "left-canonical", m
    # diagonal gauge on every bond: keeps quantum-number blocks, destroys orthonormality
    m = psi.copy()
    m.ensure_left_canonical()   # rest invariant "sweeping left from the last site": the VMF variants with
    #                             force_ovlp=True then keep the (non-orthonormal) tensors as they are
    for k in range(n - 1):
        d = rng.uniform(0.5, 2.0, size=m[k].shape[-1])
        a, b = np.asarray(m[k].array), np.asarray(m[k + 1].array)
        m[k] = a * d.reshape((1,) * (a.ndim - 1) + (-1,))
        m[k + 1] = b / d.reshape((-1,) + (1,) * (b.ndim - 1))
    yield "non-canonical", m
    # general gauge: a complex invertible matrix on every bond, mixing only states of equal label (block diagonal in the symmetry
    # sectors): overlap matrices become complex, non-diagonal and non-symmetric
    m = psi.copy().to_complex()
    m.ensure_left_canonical()
    for k in range(n - 1):
        lab = np.asarray(m.qn[k + 1]).reshape(m[k].shape[-1], -1)
        d = lab.shape[0]
        G = np.zeros((d, d), dtype=complex)
        for u in {tuple(x) for x in lab.tolist()}:
            idx = [i for i in range(d) if tuple(lab[i].tolist()) == u]
            blk = np.eye(len(idx)) + 0.35 * (rng.normal(size=(len(idx), len(idx))) + 1j * rng.normal(size=(len(idx), len(idx))))
            G[np.ix_(idx, idx)] = blk
        if np.linalg.cond(G) > 50:
            continue
        a, b = np.asarray(m[k].array), np.asarray(m[k + 1].array)
        m[k] = np.tensordot(a, G, axes=([a.ndim - 1], [0]))
        m[k + 1] = np.tensordot(np.linalg.inv(G), b, axes=([1], [0]))
    yield "non-canonical-complex-gauge", m
    if n >= 3:
        m = psi.copy()
        m.ensure_right_canonical()
        m.canonicalise(stop_idx=int(rng.integers(1, n - 1)))
        yield "mid-centre", m


@timed
def block_gauge(ctx, tm, psi):
    run, rng = ctx.run, ctx.rng
    H = tm.dense_h()
    nh = opnorm(H)
    mpo = tm.mpo()
    v0 = dense_state(psi)
    T = 0.4 / nh
    ref = scipy.linalg.expm(-1j * T * H) @ v0
    big = int(max(psi.bond_dims))
    variants = list(gauge_variants(ctx, tm, psi))
    for g, mp in variants:
        dv = float(np.linalg.norm(dense_state(mp) - v0))
        assert dv < 1e-9, ("gauge generator changed the vector", g, dv)
    specs = GAUGE_SPECS
    if ctx.quick:
        # always one variant that keeps the non-orthonormal left environment (force_ovlp=True)
        specs = GAUGE_SPECS[:5] + [GAUGE_SPECS[int(rng.choice([5, 7]))], GAUGE_SPECS[int(rng.choice([6, 8]))]]
    for spec in specs:
        nm = name_of(spec)
        base = nm.split(":")[0]
        try:
            err0 = float(np.linalg.norm(dense_state(evolve_n(variants[1][1], mpo, T, 1, spec, big)) - ref))
        except Exception as e:
            run.violation(f"{base}:gauge:left-canonical:exception:{exc_sig(e)}", replay_base(tm, v0, spec, T=T, error=repr(e)))
            continue
        for g, mp in variants:
            if g == "left-canonical":
                continue
            try:
                err = float(np.linalg.norm(dense_state(evolve_n(mp, mpo, T, 1, spec, big)) - ref))
            except AssertionError as e:
                # (a state whose label centre sits in the middle of the chain is one of the property's "any gauge" inputs: a scheme
                #  that refuses it is reported like any other exception)
                run.violation(f"{base}:gauge:{g}:exception:{exc_sig(e)}", replay_base(tm, v0, spec, T=T, error=repr(e)))
                continue
            except Exception as e:
                run.violation(f"{base}:gauge:{g}:exception:{exc_sig(e)}", replay_base(tm, v0, spec, T=T, error=repr(e)))
                continue
            ctx.evald(("gauge", tm.label, nm, g))
            run.count(f"gauge:{base}:{g}")
            if not err <= gauge_limit(spec, err0):
                sig = f"{base}:gauge:{g}"
                if base in ("tdvp_ps", "tdvp_ps2") and g in ("non-canonical", "non-canonical-complex-gauge", "mid-centre"):
                    sig = f"{base}:input-not-canonical-at-sweep-start:wrong-result"
                run.violation(sig, replay_base(tm, v0, spec, T=T, err_this_gauge=err, err_left_canonical=err0,
                                                                bond=list(mp.bond_dims), qnidx=int(mp.qnidx), to_right=bool(mp.to_right),
                                                                tensors=[L.tolist(np.asarray(t.array)) for t in mp]))


@timed
def block_switch(ctx, tm, psi):
    """sequences of calls that switch scheme and step; tolerance = what the dense propagator gives
    for the same sequence when each call is replaced by the scheme's own leading-error model is not
    available, so only accurate settings are used and a loose bound is applied"""
    run, rng = ctx.run, ctx.rng
    H = tm.dense_h()
    nh = opnorm(H)
    mpo = tm.mpo()
    v0 = dense_state(psi)
    big = int(max(psi.bond_dims))
    pool = [dict(kind="pc"), dict(kind="tdrk4"), dict(kind="tdrk", rk="Fehlberg5"), dict(kind="ps", solver="krylov"),
            dict(kind="ps2", solver="krylov"), dict(kind="ps", solver="RK45"), dict(kind="vmf", force_ovlp=True),
            dict(kind="muvmf", force_ovlp=False, auto_switch=True), dict(kind="cmf", solver="RK45"),
            dict(kind="pc", adaptive=True, adaptive_rtol=1e-6, guess_dt=0.2 / nh),
            dict(kind="ps", solver="krylov", adaptive=True, adaptive_rtol=1e-6, guess_dt=0.2 / nh)]
    nseq = 2 if ctx.quick else 6
    for _ in range(nseq):
        k = int(rng.integers(3, 6))
        seq = [pool[i] for i in rng.integers(0, len(pool), size=k)]
        cur = psi.copy()
        set_cfg(cur, None, max(big, 16))
        t = 0.0
        tol = 1e-6
        hist = []
        try:
            for spec in seq:
                dt = float(rng.uniform(0.05, 0.15)) / nh
                cur.evolve_config = make_cfg(spec)
                cur = cur.evolve(mpo, dt, normalize=bool(rng.random() < 0.5))
                t += dt
                hist.append((name_of(spec), dt))
                # generous per-call allowance: CMF 2nd order with constant ~1, the others far below
                tol += 0.5 * (nh * dt) ** 2 if spec["kind"] == "cmf" else 5e-5
            err = float(np.linalg.norm(dense_state(cur) - scipy.linalg.expm(-1j * t * H) @ v0))
        except Exception as e:
            sig = f"switch:exception:{exc_sig(e)}"
            if isinstance(e, ValueError) and "reshape" in str(e) and np.any(np.array(cur.bond_dims) > np.array(L.exact_bond_dims(tm))) or \
                    isinstance(e, ValueError) and "reshape" in str(e) and np.any(np.array(cur.bond_dims) > np.array(psi.bond_dims)):
                # §7 D11 reached by an ordinary history: a two-site step enlarged the bonds beyond the
                # exact rank, the following tdvp_mu_* call cannot digest them
                where = exc_sig(e).split("@")[1]
                sig = {"_evolve_tdvp_mu_cmf": "tdvp_mu_cmf:over-complete-bonds:ValueError-reshape",
                       "func_vmf": "tdvp_mu_vmf:over-complete-bonds:ValueError-reshape"}.get(where, sig)
            run.violation(sig, replay_base(tm, v0, dict(sequence=hist + [(name_of(spec), "failed")]), error=repr(e), bond=list(cur.bond_dims)))
            continue
        ctx.evald(("switch", tm.label, tuple(h[0] for h in hist)))
        run.count("switch:sequences")
        if not err <= tol:
            run.violation("switch:sequence-vs-dense", replay_base(tm, v0, dict(sequence=hist), error=err, tol=tol))


@timed
def block_shared_config(ctx, tm, psi):
    """A history in which the SAME EvolveConfig object is assigned before every call (the natural
    way to switch between two prepared configurations): the scheme must keep its order."""
    run, rng = ctx.run, ctx.rng
    H = tm.dense_h()
    nh = opnorm(H)
    mpo = tm.mpo()
    v0 = dense_state(psi)
    big = int(max(psi.bond_dims))
    T = 1.0 / nh
    ref = scipy.linalg.expm(-1j * T * H) @ v0
    for spec in (dict(kind="cmf", solver="RK45", midpoint=True), dict(kind="tdrk", rk="Heun_RK2"), dict(kind="pc", taylor=2)):
        nm = name_of(spec)
        p = advertised(spec)
        cfg = make_cfg(spec)
        before = dict(cfg.__dict__)
        try:
            errs = [float(np.linalg.norm(dense_state(evolve_n(psi, mpo, T, N, spec, big, shared_cfg=cfg)) - ref)) for N in (2, 4, 8)]
        except Exception as e:
            run.violation(f"{nm.split(':')[0]}:shared-config:exception:{exc_sig(e)}", replay_base(tm, v0, spec, error=repr(e)))
            continue
        verdict, obs = order_verdict(errs, p, 2e-5 if spec["kind"] == "cmf" else 2e-11)
        ctx.evald(("shared", tm.label, nm))
        run.count(f"shared:{nm}:{verdict}")
        changed = sorted(k for k in before if k in ("method", "adaptive", "tdvp_cmf_midpoint", "tdvp_cmf_c_trapz", "ivp_solver",
                                                   "force_ovlp", "adaptive_rtol") and cfg.__dict__[k] != before[k])
        if verdict == "bad":
            run.violation(f"{nm.split(':')[0]}:shared-config-object:order-lost",
                          replay_base(tm, v0, spec, T=T, steps=[2, 4, 8], errors=errs, observed_order=obs, advertised=p,
                                      config_fields_changed_by_evolve=changed))


@timed
def block_overcomplete(ctx, tm, qntot):
    """inputs whose bonds exceed the exact rank: canonical (`Mps.random` with a large m_max) and
    non-canonical (sum of two states, not canonicalised); reference = the same call on the
    losslessly compressed copy of the same vector, and the dense propagator"""
    run, rng = ctx.run, ctx.rng
    H = tm.dense_h()
    nh = opnorm(H)
    mpo = tm.mpo()
    exact = np.array(L.exact_bond_dims(tm))
    a = L.random_mps(tm, rng, qntot, 2 * int(max(exact)))
    b = L.random_mps(tm, rng, qntot, 2 * int(max(exact)))
    if a is None or b is None:
        run.count("overcomplete:random-failed")
        return
    # canonical and over-complete: random state whose full-rank part is mixed in so that the
    # compressed copy has full rank (needed by the fixed-rank one-site schemes)
    s = a.add(b.scale(0.7))
    s.normalize("mps_only")
    inputs = []
    if np.any(np.array(a.bond_dims) > exact):
        inputs.append(("canonical", a))
    if np.any(np.array(s.bond_dims) > exact):
        inputs.append(("non-canonical", s))
    T = 0.3 / nh
    U = scipy.linalg.expm(-1j * T * H)
    for gname, inp in inputs:
        v0 = dense_state(inp)
        ref = U @ v0
        comp = inp.copy()
        comp.compress_config = CompressConfig(CompressCriteria.threshold, threshold=1e-12)
        comp = comp.canonicalise().compress()
        full_rank = list(comp.bond_dims) == [int(min(x, y)) for x, y in zip(comp.bond_dims, exact)] and gname == "non-canonical"
        for spec in GAUGE_SPECS:
            nm = name_of(spec)
            base = nm.split(":")[0]
            one_site = spec["kind"] in ("ps", "cmf", "vmf", "muvmf")
            try:
                err0 = float(np.linalg.norm(dense_state(evolve_n(comp, mpo, T, 1, spec, int(max(inp.bond_dims)))) - ref))
            except Exception:
                run.count(f"overcomplete:{base}:compressed-copy-failed")
                continue
            if one_site and err0 > 1e-2:
                # the vector is rank deficient: outside "bond dimension holds the result" for fixed-rank schemes
                run.count(f"overcomplete:{base}:rank-deficient-skipped")
                continue
            try:
                with time_limit(4.0):
                    out = evolve_n(inp, mpo, T, 1, spec, int(max(inp.bond_dims)))
                err = float(np.linalg.norm(dense_state(out) - ref))
            except CallTimeout:
                run.count(f"overcomplete:{base}:{gname}:timeout")
                continue
            except Exception as e:
                ctx.evald(("overcomplete", tm.label, nm, gname))
                run.count(f"overcomplete:{base}:{gname}:{type(e).__name__}")
                rp = replay_base(tm, v0, spec, T=T, error=repr(e), bond=list(inp.bond_dims), exact_bond=exact.tolist(),
                                 tensors=[L.tolist(np.asarray(t.array)) for t in inp])
                msg = str(e)
                if isinstance(e, ValueError) and "reshape" in msg and base in ("tdvp_mu_cmf", "tdvp_mu_vmf"):
                    # DESIGN §7 D11
                    run.violation(f"{base}:over-complete-bonds:ValueError-reshape", rp)
                elif isinstance(e, ValueError) and ("infs or NaNs" in msg) and base == "tdvp_vmf" and gname == "non-canonical":
                    run.violation("tdvp_vmf:over-complete-non-canonical:nonfinite-overlap-inverse", rp)
                else:
                    run.violation(f"{base}:over-complete-bonds:{gname}:exception:{exc_sig(e)}", rp)
                continue
            ctx.evald(("overcomplete", tm.label, nm, gname))
            run.count(f"overcomplete:{base}:{gname}:ok")
            if not err <= gauge_limit(spec, err0):
                sig = f"{base}:over-complete-bonds:{gname}:wrong-result"
                if base in ("tdvp_ps", "tdvp_ps2") and gname == "non-canonical":
                    sig = f"{base}:input-not-canonical-at-sweep-start:wrong-result"
                run.violation(sig, replay_base(tm, v0, spec, T=T, error=err, error_compressed_copy=err0, bond=list(inp.bond_dims),
                                               exact_bond=exact.tolist(), tensors=[L.tolist(np.asarray(t.array)) for t in inp]))


# ----------------------------------------------------------------------------- driver
def make_mpdm(ctx, tm, psi_real):
    """a complex, full-bond MpDm: from_mps of a real state, filled by one accurate P&C evolution"""
    dm = MpDm.from_mps(psi_real)
    nh = opnorm(tm.dense_h())
    spec = dict(kind="tdrk", rk="Fehlberg5")
    out = evolve_n(dm, tm.mpo(), 0.6 / nh, 2, spec, 256, normalize=True)
    out.compress_config = CompressConfig(CompressCriteria.threshold, threshold=1e-9)
    out = out.canonicalise().compress()
    out.normalize("mps_only")
    return out


def search(run, rng, quick):
    ctx = Ctx(run, rng, quick)
    nrounds = 1 if quick else 6
    for rnd in range(nrounds):
        # --- model A: no symmetry (spin), model B: with conserved quantum numbers
        tmA = L.gen_model(rng, kinds=("spin",))
        tmB = L.gen_model(rng, kinds=("spin-u1", "eph", "eph-2qn"))
        for tm in (tmA, tmB):
            q = L.pick_qntot(tm, rng)
            cplx = bool(rng.random() < 0.6)
            psi = state_for(ctx, tm, q, cplx, gauge=str(rng.choice(["left", "right"])))
            if psi is None:
                run.count("state-generation-failed")
                continue
            run.count(f"model:{tm.label}:n={len(tm.sites)}:dim={tm.dim}")
            run.count(f"state:{'complex' if cplx else 'real'}:bond={max(psi.bond_dims)}")
            # product state for the P&C family on one of the two models
            block_tdvp(ctx, tm, psi)
            if tm is tmA:
                block_order(ctx, tm, psi)
                block_gauge(ctx, tm, psi)
                block_adaptive(ctx, tm, psi)
                block_adaptive_prefactor(ctx, tm, psi)
            else:
                prod = product_state(ctx, tm, q)
                block_order(ctx, tm, prod if prod is not None else psi)
                block_td(ctx, tm, psi)
                block_switch(ctx, tm, psi)
                block_annihilated(ctx, tm)
                if not quick:
                    block_gauge(ctx, tm, psi)
                    block_adaptive(ctx, tm, psi)
            block_solver(ctx, tm, psi)
            block_conserve(ctx, tm, q)
            block_bond(ctx, tm, psi)
            if tm is tmA or not quick:
                block_shared_config(ctx, tm, psi)
                block_overcomplete(ctx, tm, q)
            if not quick:
                block_td(ctx, tm, psi)
                block_switch(ctx, tm, psi)
        # --- density-operator form (small model: operator space is dim^2)
        if ctx.left() > (12 if quick else 60):
            tmC = L.gen_spin_model(rng, n=3, conserve=bool(rng.random() < 0.5))
            q = L.pick_qntot(tmC, rng)
            pr = state_for(ctx, tmC, q, False)
            if pr is not None:
                try:
                    dm = make_mpdm(ctx, tmC, pr)
                except Exception as e:
                    run.violation(f"mpdm:prepare:exception:{exc_sig(e)}", dict(model=tmC.describe(), error=repr(e)))
                    dm = None
                if dm is not None:
                    run.count(f"mpdm:bond={max(dm.bond_dims)}")
                    block_order(ctx, tmC, dm, as_mpdm=True)
                    block_tdvp(ctx, tmC, dm, as_mpdm=True)
        if ctx.left() < 0:
            run.count("budget-exhausted")
            break
    run.cov["evaluations"] = run.cov.get("evaluations", 0) + ctx.n_eval
    run.cov["block_seconds"] = {k: round(v, 1) for k, v in ctx.timing.items()}
    run.cov["distinct_nontrivial"] = len(ctx.distinct)
    run.cov["rule"] = ("distinct (block, model class incl. real/complex/MpDm, scheme variant, gauge/bond class) tuples; "
                       "order/exact/vmf cases count only if ||psi(T)-psi(0)|| > 0.05")


def product_state(ctx, tm, qntot):
    """a Hartree product state in the sector (bond dimension 1) on which H acts non-trivially"""
    rng = ctx.rng
    H = tm.dense_h()
    mask = tm.sector_mask(qntot)
    idx = [int(i) for i in np.flatnonzero(mask) if np.linalg.norm(H[:, i]) > 0.1]
    if len(idx) == 0:
        return None
    k = idx[int(rng.integers(0, len(idx)))]
    levels = np.unravel_index(k, tm.dims)
    cond = {tm.sites[i].dof: int(l) for i, l in enumerate(levels)}
    try:
        mp = Mps.hartree_product_state(tm.model(), cond)
    except Exception:
        return None
    ctx.run.count("state:product")
    return mp


@timed
def block_annihilated(ctx, tm):
    """product basis states with H psi = 0 exactly (e.g. the vacuum of a model without constant
    term): exp(-iHt) psi = psi, every scheme must return it"""
    run = ctx.run
    H = tm.dense_h()
    ks = [int(i) for i in range(tm.dim) if np.linalg.norm(H[:, i]) == 0.0]
    if not ks:
        run.count("annihilated:none-in-model")
        return
    levels = np.unravel_index(ks[0], tm.dims)
    mp = Mps.hartree_product_state(tm.model(), {tm.sites[i].dof: int(l) for i, l in enumerate(levels)})
    v0 = dense_state(mp)
    mpo = tm.mpo()
    for spec in (dict(kind="pc"), dict(kind="tdrk4"), dict(kind="tdrk", rk="Heun_RK2"), dict(kind="ps", solver="krylov"),
                 dict(kind="ps2", solver="krylov")):
        nm = name_of(spec)
        fam = "P&C" if nm.startswith("P&C") else nm.split(":")[0]
        try:
            out = evolve_n(mp, mpo, 0.3, 1, spec, 4)
            err = float(np.linalg.norm(dense_state(out) - v0))
        except AssertionError as e:
            ctx.evald(("annihilated", tm.label, nm))
            run.violation(f"{fam}:H-annihilates-state:AssertionError", replay_base(tm, v0, spec, error=repr(e), where=exc_sig(e),
                                                                                   levels=[int(l) for l in levels]))
            continue
        except Exception as e:
            run.violation(f"{fam}:H-annihilates-state:exception:{exc_sig(e)}", replay_base(tm, v0, spec, error=repr(e)))
            continue
        ctx.evald(("annihilated", tm.label, nm))
        run.count(f"annihilated:{fam}:ok")
        if not err <= 1e-10:
            run.violation(f"{fam}:H-annihilates-state:wrong-result", replay_base(tm, v0, spec, error=err))
