"""C12 failing-input search: tree tensor network time evolution vs the dense propagator.

Oracle = the property itself on dense arrays built by the harness (lib_treeevo: Kronecker sums of
own local matrices, own contraction of the TTNS, scipy.linalg.expm).

Families (every case: random rooted tree with multi-basis and dummy nodes, 1- or 2-component labels,
real-symmetric label-conserving Hamiltonian with offsets / duplicate terms / 3-body terms):
  exact    complete bonds, interacting H: all four schemes, real and imaginary time, multi-step
           histories with changing step and scheme, normalize on/off, coeff != 1, complex inputs.
           VMF is exact up to the integrator tolerance (the manifold is the whole sector).  The
           projector-splitting schemes are exact up to the local solver tolerance when, at every
           bond, one side carries a complete basis (then the backward bond step cancels one of the
           neighbouring forward steps exactly); that is guaranteed for label-free models (all
           sigmaqn = 0, half of the cases).  With non-trivial labels the QR inside the sweep shrinks
           a bond block by block, "complete side" may differ between blocks, and the scheme is only
           second order (measured: error 3e-5 -> 8e-6 -> 2e-6 over halvings on a 3-node chain): there
           an error above the solver tolerance triggers the order test (two halvings, slope >= 1.5).
           P&C must equal the order-4 Taylor polynomial of the propagator and obey its remainder bound.
  cluster  H = sum of cluster-local parts (clusters = connected node sets); bonds BETWEEN clusters
           truncated to any dimension >= 1 (incl. product states), bonds inside complete.  The exact
           solution stays in the manifold, H psi lies in the tangent space, so VMF and both
           projector-splitting schemes must again reproduce expm (exactness property).
  order    P&C: observed order over two step halvings at fixed total time >= 3.5.
  ps-order projector splitting on complete bonds WITH labels (not exact): observed order over two
           halvings >= 1.5.  Known defect: one-site scheme is first order on branching trees.
  ps-any   TDVP-PS, interacting H, ANY (truncated) bond dimensions, real time: norm and energy
           conserved over a multi-step history; sector / labels kept (also imaginary time).
  chain    linear tree obtained with from_mps: tree result == chain (renormalizer.mps) result ==
           dense propagator, same scheme and configuration, complete bonds.
  annihilated  a Hartree state annihilated by a pure hopping H (vacuum / filled): stationary.
           Known defect: P&C raises ValueError (a zero Taylor term has no consistent labels).
  aux      density-operator-like state on the P+Q tree (add_auxiliary_space), operator on the P
           tree only: expm(H (x) 1_Q).
Every evolve call also checks: sector conserved (dense support + qntot), bond labels consistent with
the tensors, result is a new object and the input is bit-identical afterwards (reported under
signature prefix "alias:", property C13; known defect D6 = "alias:evolve:imag:ps-inplace").
"""
import time

import numpy as np
import scipy.linalg as sla

import lib_treeevo as L
from renormalizer import Model, Mps, Mpo
from renormalizer.tn import TTNO, TTNS
from renormalizer.tn.tree import from_mps
from renormalizer.utils import EvolveConfig, EvolveMethod, CompressConfig, CompressCriteria

PS, PS2, VMF, PC = (EvolveMethod.tdvp_ps, EvolveMethod.tdvp_ps2, EvolveMethod.tdvp_vmf,
                    EvolveMethod.prop_and_compress_tdrk4)
METHODS = [PS, PS2, VMF, PC]
NAME = {PS: "tdvp_ps", PS2: "tdvp_ps2", VMF: "tdvp_vmf", PC: "pc_tdrk4"}

# relative error allowed vs expm for the schemes that are exact under the stated conditions.
# local solver: expm_krylov stops when two iterates agree to allclose(rtol 1e-5, atol 1e-8); observed
# errors are 1e-13..1e-9; VMF integrates with ivp_rtol 1e-7 / atol 1e-9 (observed <= 1e-6).
TOL_EXACT = {PS: 1e-5, PS2: 1e-5, VMF: 2e-5}
TOL_VMF_DEFAULT = 2e-3      # default ivp_rtol=1e-5, ivp_atol=1e-8
TOL_POLY = 1e-9             # P&C vs its own Taylor polynomial, no truncation
TOL_SECTOR = 1e-9
TOL_LABEL = 1e-9


class _RunAway(BaseException):
    pass


class _Watchdog:
    def __init__(self, seconds):
        self.seconds = seconds

    def _handler(self, signum, frame):
        raise _RunAway()

    def __enter__(self):
        import signal
        try:
            self.old = signal.signal(signal.SIGALRM, self._handler)
            signal.setitimer(signal.ITIMER_REAL, self.seconds)
            self.armed = True
        except ValueError:
            self.armed = False
        return self

    def __exit__(self, *a):
        import signal
        if self.armed:
            signal.setitimer(signal.ITIMER_REAL, 0)
            signal.signal(signal.SIGALRM, self.old)
        return False


def _cfg(t, method, tight=True, mmax=200, no_growth=False):
    if tight:
        t.evolve_config = EvolveConfig(method, ivp_rtol=1e-7, ivp_atol=1e-9, force_ovlp=False)
    else:
        t.evolve_config = EvolveConfig(method, force_ovlp=False)
    if no_growth:
        # keep exactly the non-null Schmidt vectors (two-site steps must not pad bonds, see fam_cluster)
        t.compress_config = CompressConfig(CompressCriteria.threshold, threshold=1e-10)
    else:
        t.compress_config = CompressConfig(CompressCriteria.fixed, max_bonddim=mmax)
    return t


def _build(spec):
    tree, bs = L.make_tree(spec)
    ttno = TTNO(tree, L.make_ops(spec))
    h = L.dense_h(spec)
    lab = L.sector_labels(spec)
    return tree, bs, ttno, h, lab


def _random_state(tree, q, seed, m_list=None, big=400):
    """random canonical TTNS in sector q; m_list (per node index) truncates by SVD compression"""
    np.random.seed(seed)
    try:
        t = TTNS.random(tree, np.array(q), big)
    except (FloatingPointError, ZeroDivisionError, AssertionError, ValueError):
        return None
    if not all(np.all(np.isfinite(n.tensor)) for n in t.node_list):
        return None
    if m_list is not None:
        try:
            t.compress(temp_m_trunc=list(m_list))
            nrm = np.linalg.norm(L.dense_ttns(t))
            if not np.isfinite(nrm) or nrm < 1e-8:
                return None
            t.root.tensor = t.root.tensor / nrm
        except (FloatingPointError, AssertionError, ValueError):
            return None
    return t


def _tay4(h, psi, tau):
    x = (h * tau.imag) if np.iscomplex(tau) else (-1j * h * float(np.real(tau)))
    out = psi.astype(complex)
    term = psi.astype(complex)
    for k in range(1, 5):
        term = x @ term / k
        out = out + term
    return out


def _tau(rng, hnorm, imag, lo=0.05, hi=1.5):
    x = float(np.exp(rng.uniform(np.log(lo), np.log(hi)))) / max(hnorm, 1e-3)
    x = float(np.round(x, 4)) or 0.01
    return (-1j * x) if imag else x


KNOWN_CRASHES = ("evolve:qn2:normalize:raises-ValueError", "evolve:qn2:tdvp_ps2:raises-ValueError",
                 "evolve:aux:tdvp_ps2:raises-KeyError")


def _branching(spec):
    nch = [0] * len(spec["nodes"])
    for nd in spec["nodes"]:
        if nd["parent"] >= 0:
            nch[nd["parent"]] += 1
    return max(nch) >= 2


def _ps2_tensors(spec):
    """largest number of tensors in a two-site effective Hamiltonian of this tree"""
    nch = [0] * len(spec["nodes"])
    for nd in spec["nodes"]:
        if nd["parent"] >= 0:
            nch[nd["parent"]] += 1
    return max(nch[i] + nch[nd["parent"]] - 1 + 4 for i, nd in enumerate(spec["nodes"]) if nd["parent"] >= 0)


def _pick(cx, spec, method, p_norm=0.5, aux=False):
    """normalize flag and scheme.  Once one of the understood crashes has been seen in this run it is
    probed only rarely, so that the remaining budget reaches everything else on two-component labels
    / auxiliary trees; on a tree where they are repaired nothing is held back"""
    rng = cx.rng
    normalize = bool(rng.random() < p_norm)
    if method is PS2 and _ps2_tensors(spec) > 7:
        # the library asks opt_einsum for the optimal contraction path: factorial search, 8 tensors
        # with many indices take over a minute
        method = PS
    if spec["qn_size"] == 2:
        if KNOWN_CRASHES[0] in cx.crashed:
            normalize = bool(rng.random() < 0.08)
        if method is PS2 and KNOWN_CRASHES[1] in cx.crashed and rng.random() < 0.85:
            method = PS
    if aux and method is PS2 and KNOWN_CRASHES[2] in cx.crashed and rng.random() < 0.8:
        method = PS
    return method, normalize


def _draw_method(rng, allowed=(0, 1, 2, 3)):
    w = np.array([0.32, 0.3, 0.16, 0.22])[list(allowed)]
    return METHODS[int(rng.choice(list(allowed), p=w / w.sum()))]


def _prep_vmf(rng, t):
    """VMF inverts the bond overlap matrices: null Schmidt vectors (over-complete bonds from
    TTNS.random) make the regularised ODE stiff and one call takes 10+ s.  Mostly remove them first
    (lossless compression at threshold 1e-9); the un-prepared path is still taken sometimes."""
    if rng is not None and rng.random() < 0.12:
        return t, False
    t2 = t.copy()
    t2.compress_config = CompressConfig(CompressCriteria.threshold, threshold=1e-9)
    try:
        t2.canonicalise()
        t2.compress()
    except Exception:
        return t, False
    return t2, True


def _annihilated(h, psi):
    """some Taylor term H^k psi (k <= 4) is exactly zero, e.g. the vacuum under a hopping Hamiltonian"""
    hn = max(np.linalg.norm(h, 2), 1e-300)
    v = psi / np.linalg.norm(psi)
    for _ in range(4):
        v = h @ v / hn
        if np.linalg.norm(v) < 1e-12:
            return True
    return False


def _classify(spec, fam, method, key, e, h=None, psi=None):
    """stable signatures of the genuine crashes of the pinned tree (see the final report / DESIGN §7)"""
    msg = str(e)
    if method is PC and isinstance(e, ValueError) and "Invalid quantum number" in msg and h is not None and _annihilated(h, psi):
        # P&C builds H psi, H^2 psi, ...; a term that is the zero vector has no consistent bond labels
        # (same behaviour in the chain implementation)
        return "evolve:pc_tdrk4:H-annihilates-state:raises-ValueError"
    if spec["qn_size"] == 2 and isinstance(e, ValueError) and "Inconsistent quantum number size" in msg:
        # TTNS.expectation/ttns_norm/normalize build a 1-component BasisDummy -> every evolve(normalize=True)
        return "evolve:qn2:normalize:raises-ValueError"
    if spec["qn_size"] == 2 and method is PS2 and isinstance(e, ValueError) and "reshape" in msg:
        # TTNS.update_2site: dim1 = np.prod(qnbigl.shape) counts the label axis
        return "evolve:qn2:tdvp_ps2:raises-ValueError"
    if fam == "aux" and method is PS2 and isinstance(e, KeyError):
        # hop_expr2 -> _get_hdiag cannot handle physical indices absent from the operator
        return "evolve:aux:tdvp_ps2:raises-KeyError"
    return f"evolve:{key}:raises:{type(e).__name__}"


class Ctx:
    def __init__(self, run, rng, quick):
        self.run, self.rng, self.quick = run, rng, quick
        self.n = 0
        self.distinct = set()
        self.maxerr = {}
        self.crashed = set()
        self.t0 = time.time()

    def replay(self, fam, spec, state0, hist, extra):
        return dict(family=fam, spec=spec, init_state=state0, history=hist, **extra)


def _hist_json(hist):
    return [dict(method=NAME[m], tau=[float(np.real(t)), float(np.imag(t))], normalize=bool(nz)) for (m, t, nz) in hist]


def _ps_order_check(cx, key, ttno, h, t_in, method, tau, hn, err1, rep, branching=True):
    """non-trivial labels: projector splitting is second order, not exact.  Halve the step twice."""
    run = cx.run
    if hn > 0.7:
        run.count("ps-order:step-too-large-for-slope")
        return
    psi0 = L.dense_ttns(t_in)
    ref = L.expm_apply(h, psi0, tau)
    errs = []
    for n in (1, 2, 4):
        tt = t_in.copy()
        for _ in range(n):
            _cfg(tt, method)
            try:
                tt = tt.evolve(ttno, tau / n, normalize=False)
            except Exception as e:
                run.violation(f"evolve:{key}:raises:{type(e).__name__}", rep(error=repr(e)[:300], substeps=n))
                return
            cx.n += 1
        errs.append(float(np.linalg.norm(L.dense_ttns(tt) - ref) / np.linalg.norm(ref)))
    run.count("ps-order:measured")
    # the local solver stops at allclose(rtol 1e-5) between Krylov iterates: errors below ~1e-5 are
    # solver noise and carry no order information
    if errs[0] < 1e-5:
        run.count("ps-order:exact")
        return
    orders = [float(np.log2(errs[i] / errs[i + 1])) if errs[i + 1] > 0 else 99.0 for i in range(2)]
    overall = 0.5 * float(np.log2(errs[0] / errs[2])) if errs[2] > 0 else 99.0
    info = dict(errors=errs, orders=orders, overall_order=overall, hnorm_dt=float(hn))
    if errs[0] > 2.0 * hn ** 2 + 1e-5:
        run.violation(f"evolve:{key}:not-second-order", rep(**info))
        return
    if errs[2] < 2e-5:
        run.count("ps-order:inconclusive-near-solver-noise")
        return
    run.count("ps-order:judged")
    if overall < 1.4:
        if method is PS and branching and overall > 0.6:
            # genuine defect of the pinned tree: _tdvp_ps_backward visits the children of a node in the
            # same order as _tdvp_ps_forward instead of the reversed one, so the two half sweeps are not
            # adjoint to each other and the composition is only first order on a tree with a branching
            # node (the two-site variant uses reversed(...) and is second order)
            run.violation("evolve:tdvp_ps:branching-tree:first-order", rep(**info))
        else:
            run.violation(f"evolve:{key}:not-second-order", rep(**info))


def _evolve_checked(cx, fam, spec, ttno, h, lab, q, t, method, tau, normalize, tol, state0, hist, tight=True,
                    poly=True, tol_override=None):
    """one evolve call on the real code + all per-call oracles. returns the new TTNS or None"""
    run = cx.run
    imag = bool(np.iscomplex(tau))
    key = f"{fam}:{NAME[method]}:{'imag' if imag else 'real'}"
    run.count("call:" + key)
    cx.n += 1
    _cfg(t, method, tight, no_growth=(fam == "cluster"))
    if method is PS2 and fam != "cluster" and cx.rng.random() < 0.5:
        # per-bond limits (entry i = the bond owned by node i of node_list, same convention as TTNS.bond_dims), each equal to the
        # largest Schmidt rank that bond can have: sufficient for every state, but all different
        below = [float(x) for x in t.bond_dims_exact]
        total = float(np.prod([float(np.prod(p)) for p in t.pbond_dims]))
        lim = [int(max(1, min(b, total / b, 400))) for b in below]
        lim[t.node_idx[t.root]] = 1
        t.compress_config.max_dims = np.array(lim + [1])
        run.count("ps2:per-bond-limits")
    ps_order = not spec.get("trivial_qn", False) and fam not in ("cluster", "annihilated")
    t_in = t.copy() if (ps_order and method in (PS, PS2) and tol is not None) else None
    snap = L.snapshot(t)
    psi0 = L.dense_ttns(t)
    c0 = complex(t.coeff)
    rep = lambda **kw: cx.replay(fam, spec, state0, _hist_json(hist), dict(failing_step=len(hist) - 1, **kw))
    if time.time() - cx.t0 > (150.0 if cx.quick else 900.0):
        run.count("abandoned:hard-deadline")          # the family loop checks its budget only between cases
        return None
    try:
        with _Watchdog(120):
            new = t.evolve(ttno, tau, normalize=normalize)
    except _RunAway:
        # safety net: an integration that runs away (stiff mean-field equations with an adaptive ODE solver) is interrupted and
        # the case abandoned without a judgement; counted in the evidence
        run.count(f"abandoned:run-away-call:{key}")
        return None
    except Exception as e:  # the property promises a result for every input generated here
        sig = _classify(spec, fam, method, key, e, h, psi0)
        cx.crashed.add(sig)
        run.violation(sig, rep(error=repr(e)[:300]))
        # after one of the three understood crashes the history goes on from the (possibly in-place
        # evolved, D6) input; anything else ends the case
        if sig == KNOWN_CRASHES[0] or (sig in KNOWN_CRASHES and not imag):
            return t
        return None
    # ---- alias (C13)
    same = new is t
    d = L.snapshot_diff(t, snap)
    if same or d != 0.0:
        if imag and method in (PS, PS2) and same:
            run.violation("alias:evolve:imag:ps-inplace", rep(returns_input=True, input_change=float(min(d, 1e300))))
        else:
            run.violation(f"alias:evolve:{'imag' if imag else 'real'}:{NAME[method]}:input-modified",
                          rep(returns_input=bool(same), input_change=float(min(d, 1e300))))
    got = L.dense_ttns(new)
    # ---- branching history: the same call on the same state (same operator object) must give the same state again,
    #      whatever happened to the result of the first call in between
    if not same and (method in (PS, PS2) or cx.rng.random() < 0.3):
        try:
            _cfg(t, method, tight, no_growth=(fam == "cluster"))
            again = t.evolve(ttno, tau, normalize=normalize)
            g2 = L.dense_ttns(again) * complex(again.coeff)
            g1 = got * complex(new.coeff)
            dev = float(np.linalg.norm(g2 - g1) / max(np.linalg.norm(g1), 1e-300))
            run.count("branching:repeated-call")
            if dev > 1e-7:
                run.violation(f"evolve:{NAME[method]}:{'imag' if imag else 'real'}:second-call-from-same-state-differs",
                              rep(rel_dev=dev, what="state.evolve(H, tau) called twice on the same state gave two different states"))
        except Exception as e:  # noqa
            run.violation(f"evolve:{NAME[method]}:second-call-from-same-state-raises:{type(e).__name__}", rep(error=repr(e)[:300]))
    # ---- reference
    ref = L.expm_apply(h, psi0, tau)
    nref = np.linalg.norm(ref)
    if normalize:
        exp_vec = ref / nref
        exp_coeff = (c0 / abs(c0)) if imag else c0
    else:
        exp_vec = ref
        exp_coeff = c0
    scale = np.linalg.norm(exp_vec)
    err = float(np.linalg.norm(got - exp_vec) / scale)
    if abs(complex(new.coeff) - exp_coeff) > 1e-12 * max(1.0, abs(exp_coeff)):
        run.violation(f"evolve:{key}:coeff", rep(expected=[exp_coeff.real, exp_coeff.imag],
                                                 observed=[complex(new.coeff).real, complex(new.coeff).imag]))
    hn = np.linalg.norm(h, 2) * abs(tau)
    if tol is not None:
        if method is PC:
            # (a) equals its Taylor-4 polynomial; (b) Taylor remainder bound vs expm
            if poly:
                p = _tay4(h, psi0, tau)
                if normalize:
                    p = p / np.linalg.norm(p)
                e2 = float(np.linalg.norm(got - p) / np.linalg.norm(p))
                if e2 > TOL_POLY:
                    run.violation(f"evolve:{key}:not-taylor4", rep(rel_err_vs_polynomial=e2, hnorm_dt=float(hn)))
            bound = 2.5 * hn ** 5 / 120 * np.exp(hn) * np.linalg.norm(psi0) / nref + 1e-9
            if err > bound:
                run.violation(f"evolve:{key}:beyond-order4-remainder", rep(rel_err=err, bound=float(bound), hnorm_dt=float(hn)))
        else:
            thr = tol_override if tol_override is not None else tol[method]
            if err <= thr:
                mk = f"{fam}:{NAME[method]}" + (":default-ivp-tol" if tol_override is not None else "")
                cx.maxerr[mk] = max(cx.maxerr.get(mk, 0.0), err)
            if err > thr:
                if method in (PS, PS2) and ps_order and t_in is not None:
                    _ps_order_check(cx, key, ttno, h, t_in, method, tau, hn, err, rep, branching=_branching(spec))
                else:
                    run.violation(f"evolve:{key}:vs-expm", rep(rel_err=err, tol=thr, hnorm_dt=float(hn), normalize=bool(normalize)))
    # ---- sector & labels
    m = np.all(lab == np.asarray(q), axis=1)
    leak = float(np.linalg.norm(got[~m]) / max(np.linalg.norm(got), 1e-300)) if (~m).any() else 0.0
    if leak > TOL_SECTOR or not np.array_equal(np.asarray(new.qntot).ravel(), np.asarray(q).ravel()):
        run.violation(f"evolve:{key}:sector", rep(leak=leak, qntot=np.asarray(new.qntot).tolist(), expected=np.asarray(q).tolist()))
    lv = L.label_violation(new, spec["qn_size"])
    if lv > TOL_LABEL:
        run.violation(f"evolve:{key}:labels", rep(label_violation=float(min(lv, 1e300))))
    return new


# ------------------------------------------------------------------------------------ families
def fam_exact(cx):
    rng, run = cx.rng, cx.run
    spec = L.gen_spec(rng, cx.quick, max_dim=120 if cx.quick else 200, trivial_qn=bool(rng.random() < 0.5))
    tree, bs, ttno, h, lab = _build(spec)
    q, cond = L.pick_sector(rng, spec)
    seed = int(rng.integers(1 << 30))
    t = _random_state(tree, q, seed)
    if t is None:
        run.count("rejected:random-state")
        return
    hn = np.linalg.norm(h, 2)
    if rng.random() < 0.5:
        t.coeff = complex(np.round(rng.normal(), 2) or 0.5, np.round(rng.normal(), 2))
    state0 = dict(np_seed=seed, qntot=np.asarray(q).tolist(), coeff=[complex(t.coeff).real, complex(t.coeff).imag], tensors=L.tensors_json(t))
    nstep = int(rng.integers(1, 4))
    hist = []
    cx.distinct.add(("exact", len(spec["nodes"]), spec["family"], spec["qn_size"], tuple(sorted(b["kind"] for b in spec["basis"]))))
    run.count(f"tree:{spec['family']}:nodes={len(spec['nodes'])}:qn={spec['qn_size']}")
    run.count("dummy-nodes", sum(1 for n in spec["nodes"] if not n["sets"]))
    run.count("multi-basis-nodes", sum(1 for n in spec["nodes"] if len(n["sets"]) > 1))
    for k in range(nstep):
        method, normalize = _pick(cx, spec, _draw_method(rng))
        imag = bool(rng.random() < 0.5)
        tau = _tau(rng, hn, imag, 0.05, {PC: 0.8, VMF: 0.5}.get(method, 2.0))
        tight = bool(method is not VMF or rng.random() < 0.7)
        if method is VMF:
            t, prepared = _prep_vmf(rng, t)
            run.count("vmf:prepared" if prepared else "vmf:raw-bonds")
        hist.append((method, tau, normalize))
        new = _evolve_checked(cx, "exact", spec, ttno, h, lab, q, t, method, tau, normalize, TOL_EXACT, state0, hist,
                              tight=tight, tol_override=(TOL_VMF_DEFAULT if (method is VMF and not tight) else None))
        if new is None:
            return
        t = new
    run.sample(dict(family="exact", nodes=spec["nodes"], basis=[b["kind"] for b in spec["basis"]], nterms=len(spec["terms"]),
                    history=_hist_json(hist)))


def fam_cluster(cx):
    rng, run = cx.rng, cx.run
    spec = L.gen_spec(rng, cx.quick, max_dim=120 if cx.quick else 200, trivial_qn=bool(rng.random() < 0.5))
    nn = len(spec["nodes"])
    # cut a random subset of edges (edge i = node i -> its parent), at least one.  With non-trivial
    # labels every edge is cut (node-local H): "complete inside a cluster" is block dependent there
    cut = [i for i in range(1, nn) if (rng.random() < 0.6 or not spec["trivial_qn"])]
    if not cut:
        cut = [int(rng.integers(1, nn))]
    cluster_of = {}
    for i in range(nn):
        p = spec["nodes"][i]["parent"]
        cluster_of[i] = i if (p < 0 or i in cut) else cluster_of[p]
    spec["terms"] = L.gen_terms(rng, spec, nonint=True, cluster_of=cluster_of)
    spec["cut_nodes"] = cut
    tree, bs, ttno, h, lab = _build(spec)
    q, cond = L.pick_sector(rng, spec)
    _, node_order, _ = L.tree_basis_order(spec)
    # per node (library pre-order index) bond limit: cut edges truncated to 1..3, inner edges complete
    m_list = []
    mcut = {}
    for i in node_order:
        if i in cut:
            mcut[i] = int(rng.choice([1, 1, 2, 3]))
            m_list.append(mcut[i])
        else:
            m_list.append(400)
    seed = int(rng.integers(1 << 30))
    kind = "random"
    if all(v == 1 for v in mcut.values()) and len(cut) == nn - 1 and rng.random() < 0.7:
        # genuine Hartree product state from the constructor (bond dimension 1 everywhere)
        c2 = L.random_product_condition(rng, spec, cond)
        t = TTNS(tree, c2)
        kind = "hartree"
    else:
        t = _random_state(tree, q, seed, m_list)
    if t is None:
        run.count("rejected:random-state")
        return
    hn = np.linalg.norm(h, 2)
    inner = len(cut) < nn - 1
    state0 = dict(np_seed=seed, kind=kind, qntot=np.asarray(q).tolist(), m_list=m_list, tensors=L.tensors_json(t))
    run.count(f"cluster:bonds={'-'.join(str(x) for x in sorted(set(t.bond_dims)))}")
    cx.distinct.add(("cluster", nn, tuple(sorted(mcut.values())), spec["qn_size"], tuple(sorted(b["kind"] for b in spec["basis"]))))
    hist = []
    nstep = int(rng.integers(1, 4))
    for k in range(nstep):
        method, normalize = _pick(cx, spec, _draw_method(rng, (0, 1, 2)))   # P&C is covered by `exact`
        imag = bool(rng.random() < 0.5)
        tau = _tau(rng, hn, imag, 0.05, 0.5 if method is VMF else 2.0)
        if method is VMF:
            t, prepared = _prep_vmf(rng, t)
            run.count("vmf:prepared" if prepared else "vmf:raw-bonds")
        elif inner:
            # exactness needs every bond INSIDE a cluster to be complete w.r.t. the current bond
            # dimensions around it: drop null Schmidt vectors (lossless) so that a generic state has
            # inner bonds of dimension min(side, other side); padded/over-complete inner bonds give a
            # (legitimate) O(tau^3) local error
            t, _ = _prep_vmf(None, t)
        hist.append((method, tau, normalize))
        new = _evolve_checked(cx, "cluster", spec, ttno, h, lab, q, t, method, tau, normalize, TOL_EXACT, state0, hist)
        if new is None:
            return
        t = new
    run.sample(dict(family="cluster", nodes=spec["nodes"], cut=cut, bonds=list(map(int, t.bond_dims)), history=_hist_json(hist)))


def fam_order(cx):
    """P&C: order over step halvings at fixed total time, complete bonds"""
    rng, run = cx.rng, cx.run
    spec = L.gen_spec(rng, cx.quick, max_dim=64)
    tree, bs, ttno, h, lab = _build(spec)
    q, cond = L.pick_sector(rng, spec)
    seed = int(rng.integers(1 << 30))
    t0 = _random_state(tree, q, seed)
    if t0 is None:
        run.count("rejected:random-state")
        return
    hn = np.linalg.norm(h, 2)
    m = np.all(lab == np.asarray(q), axis=1)
    hs = h[np.ix_(m, m)]
    if hs.shape[0] < 2 or np.linalg.norm(hs - np.trace(hs) / len(hs) * np.eye(len(hs))) < 1e-6:
        run.count("rejected:trivial-sector")
        return
    imag = bool(rng.random() < 0.5)
    # x = rho(H restricted to the sector) * T in [0.15, 0.3]: the leading term x^5/120 dominates the next
    # one by >= 5/(x) so that the observed order over halvings is 4 - O(x) (>= 3.7); errors 1e-9..1e-6
    total = float(np.round(rng.uniform(0.15, 0.3) / np.linalg.norm(hs, 2), 5))
    psi0 = L.dense_ttns(t0)
    ref = L.expm_apply(h, psi0, (-1j * total) if imag else total)
    errs = []
    for nst in (1, 2, 4):
        t = t0.copy()
        tau = (-1j * total / nst) if imag else total / nst
        for _ in range(nst):
            _cfg(t, PC)
            try:
                t = t.evolve(ttno, tau, normalize=False)
            except Exception as e:
                run.violation(f"evolve:order:pc_tdrk4:{'imag' if imag else 'real'}:raises:{type(e).__name__}",
                              cx.replay("order", spec, dict(np_seed=seed, qntot=np.asarray(q).tolist(), tensors=L.tensors_json(t0)),
                                        [dict(total=total, imag=imag, steps=nst)], dict(error=repr(e)[:300])))
                return
            cx.n += 1
        errs.append(float(np.linalg.norm(L.dense_ttns(t) - ref) / np.linalg.norm(ref)))
    run.count(f"call:order:pc_tdrk4:{'imag' if imag else 'real'}")
    cx.distinct.add(("order", len(spec["nodes"]), imag, round(hn * total, 1)))
    if errs[2] < 1e-11:
        run.count("order:below-rounding")
        return
    orders = [float(np.log2(errs[i] / errs[i + 1])) for i in range(2)]
    if min(orders) < 3.5:
        run.violation(f"order:pc_tdrk4:{'imag' if imag else 'real'}:slope<3.5",
                      cx.replay("order", spec, dict(np_seed=seed, qntot=np.asarray(q).tolist(), tensors=L.tensors_json(t0)),
                                [dict(total=total, imag=imag, steps=[1, 2, 4])], dict(errors=errs, orders=orders)))


def fam_ps_order(cx):
    """projector splitting with labels on complete bonds is not exact: measure its order"""
    rng, run = cx.rng, cx.run
    fam = str(rng.choice(["star", "random", "mctdh", "linear"], p=[0.35, 0.3, 0.25, 0.1]))
    # rejection-sample a model with an edge where "the complete side" depends on the label block
    cx.n_psorder = getattr(cx, "n_psorder", 0) + 1
    targeted = bool(rng.random() < 0.5) or cx.n_psorder <= 6
    for _ in range(60):
        if targeted:
            spec = L.gen_mixed_star(rng)
        else:
            spec = L.gen_spec(rng, cx.quick, max_dim=100, family=fam, qn_size=1, kinds=["spin", "elec", "me", "spin", "sho"])
        q, cond = L.pick_sector(rng, spec)
        if L.mixed_edges(spec, q) and (fam == "linear" or _branching(spec)):
            break
    else:
        run.count("rejected:no-mixed-edge")
        return
    tree, bs, ttno, h, lab = _build(spec)
    seed = int(rng.integers(1 << 30))
    t0 = _random_state(tree, q, seed)
    if t0 is None:
        run.count("rejected:random-state")
        return
    hn = np.linalg.norm(h, 2)
    method, _ = _pick(cx, spec, PS if (rng.random() < 0.7 or cx.n_psorder <= 6) else PS2)
    imag = bool(rng.random() < 0.4)
    tau = _tau(rng, hn, imag, 0.25, 0.7)
    state0 = dict(np_seed=seed, qntot=np.asarray(q).tolist(), tensors=L.tensors_json(t0))
    hist = [(method, tau, False)]
    key = f"ps-order:{NAME[method]}:{'imag' if imag else 'real'}"
    run.count("call:" + key)
    cx.distinct.add(("ps-order", len(spec["nodes"]), fam, NAME[method], imag))
    rep = lambda **kw: cx.replay("ps-order", spec, state0, _hist_json(hist), kw)
    _ps_order_check(cx, key, ttno, h, t0, method, tau, np.linalg.norm(h, 2) * abs(tau), None, rep, branching=_branching(spec))


def fam_ps_any(cx):
    """TDVP-PS with ANY bond dimension on an interacting H"""
    rng, run = cx.rng, cx.run
    spec = L.gen_spec(rng, cx.quick, max_dim=120 if cx.quick else 200)
    tree, bs, ttno, h, lab = _build(spec)
    q, cond = L.pick_sector(rng, spec)
    nn = len(spec["nodes"])
    m_list = [int(rng.choice([1, 1, 2, 3, 400])) for _ in range(nn)]
    seed = int(rng.integers(1 << 30))
    kind = "random"
    r = rng.random()
    if r < 0.2:
        t = TTNS(tree, L.random_product_condition(rng, spec, cond))
        kind = "hartree"
    else:
        t = _random_state(tree, q, seed, m_list)
        if t is not None and r < 0.4:
            # product state + small random admixture (as the upstream tests expand bonds)
            p = TTNS(tree, L.random_product_condition(rng, spec, cond))
            if np.array_equal(np.asarray(p.qntot).ravel(), np.asarray(q).ravel()):
                t = p + t.scale(1e-3, inplace=True)
                t.canonicalise()
                t.root.tensor = t.root.tensor / np.linalg.norm(L.dense_ttns(t))
                kind = "hartree+small"
    if t is None:
        run.count("rejected:random-state")
        return
    hn = np.linalg.norm(h, 2)
    state0 = dict(np_seed=seed, kind=kind, qntot=np.asarray(q).tolist(), m_list=m_list, tensors=L.tensors_json(t))
    run.count(f"ps-any:{kind}:maxbond={max(t.bond_dims)}")
    cx.distinct.add(("ps-any", nn, kind, tuple(t.bond_dims), spec["qn_size"]))
    imag = bool(rng.random() < 0.3)
    nstep = int(rng.integers(1, 5))
    psi = L.dense_ttns(t)
    e0 = float(np.real(np.vdot(psi, h @ psi) / np.vdot(psi, psi)))
    n0 = float(np.linalg.norm(psi))
    bonds0 = list(t.bond_dims)
    hist = []
    nlocal = 0
    for k in range(nstep):
        tau = _tau(rng, hn, imag, 0.05, 1.5)
        _, normalize = _pick(cx, spec, PS, 0.3)
        hist.append((PS, tau, normalize))
        new = _evolve_checked(cx, "ps-any", spec, ttno, h, lab, q, t, PS, tau, normalize, None, state0, hist)
        if new is None:
            return
        t = new
        nlocal += 4 * nn
        psi = L.dense_ttns(t)
        if not imag:
            nrm = float(np.linalg.norm(psi))
            e = float(np.real(np.vdot(psi, h @ psi) / np.vdot(psi, psi)))
            # every local step is exp(-i tau Heff) of a Hermitian Heff solved to the Krylov tolerance
            tol = 1e-7 * nlocal
            rep = lambda **kw: cx.replay("ps-any", spec, state0, _hist_json(hist), dict(failing_step=k, **kw))
            if abs(nrm - n0) > tol * n0:
                run.violation("ps-any:tdvp_ps:real:norm-drift", rep(norm0=n0, norm=nrm, tol=tol))
            if abs(e - e0) > tol * max(1.0, hn):
                run.violation("ps-any:tdvp_ps:real:energy-drift", rep(e0=e0, e=e, hnorm=float(hn), tol=tol))
        if any(b > b0 for b, b0 in zip(t.bond_dims, bonds0)):
            run.violation("ps-any:tdvp_ps:bond-grows", cx.replay("ps-any", spec, state0, _hist_json(hist),
                                                                 dict(bonds0=bonds0, bonds=list(map(int, t.bond_dims)))))


def fam_chain(cx):
    """linear tree vs chain implementation vs dense, complete bonds"""
    rng, run = cx.rng, cx.run
    spec = None
    for _ in range(20):
        s = L.gen_spec(rng, cx.quick, max_dim=64, family="linear", trivial_qn=bool(rng.random() < 0.5))
        if all(len(n["sets"]) == 1 for n in s["nodes"]) and len(s["nodes"]) >= 2:
            spec = s
            break
    if spec is None:
        run.count("rejected:chain-spec")
        return
    bs = L.make_basis_sets(spec)
    # chain site order = node order of the spec (node i holds exactly one set)
    order = [n["sets"][0] for n in spec["nodes"]]
    site_basis = [bs[i] for i in order]
    ops = L.make_ops(spec)
    model = Model(site_basis, ops)
    h = L.dense_h(spec, order=order)
    lab = L.sector_labels(spec, order=order)
    q, cond = L.pick_sector(rng, spec)
    seed = int(rng.integers(1 << 30))
    np.random.seed(seed)
    try:
        mps = Mps.random(model, np.array(q), 400)
        ok = all(np.all(np.isfinite(np.asarray(m.array))) for m in mps)
    except (FloatingPointError, ZeroDivisionError, AssertionError, ValueError):
        ok = False
    if not ok:
        run.count("rejected:chain-random-state")
        return
    mpo = Mpo(model)
    try:
        basis, ttns, ttno = from_mps(mps)
    except Exception as e:
        run.violation(f"chain:from_mps:raises:{type(e).__name__}", dict(spec=spec, np_seed=seed, error=repr(e)[:300]))
        return
    psi0 = np.asarray(mps.todense()).ravel()
    nsite = len(order)
    dims = [b.nbas for b in site_basis]

    def tree_vec(t):
        # from_mps reverses the site order: tree pre-order = chain order reversed
        v = L.dense_ttns(t).reshape(dims[::-1])
        return v.transpose(list(range(nsite))[::-1]).ravel()
    if np.linalg.norm(tree_vec(ttns) - psi0) > 1e-10:
        run.violation("chain:from_mps:state-differs", dict(spec=spec, np_seed=seed, diff=float(np.linalg.norm(tree_vec(ttns) - psi0))))
        return
    hn = np.linalg.norm(h, 2)
    method, normalize = _pick(cx, spec, _draw_method(rng))
    if not spec["trivial_qn"] and method in (PS, PS2):
        # with labels projector splitting is second order only and the two implementations sweep in
        # opposite directions: no statement to compare
        method = VMF if rng.random() < 0.5 else PC
    imag = bool(rng.random() < 0.5)
    tau = _tau(rng, hn, imag, 0.05, {PC: 0.6, VMF: 0.5}.get(method, 1.5))
    key = f"chain:{NAME[method]}:{'imag' if imag else 'real'}"
    run.count("call:" + key)
    cx.distinct.add(("chain", nsite, NAME[method], imag, spec["qn_size"]))
    _cfg(ttns, method)
    cx.n += 1
    rep = dict(spec=spec, np_seed=seed, qntot=np.asarray(q).tolist(), method=NAME[method], tau=[np.real(tau), np.imag(tau)],
               normalize=normalize, site_order=order)
    try:
        new_t = ttns.evolve(ttno, tau, normalize=normalize)
    except Exception as e:
        sig = _classify(spec, "chain", method, key, e, h, psi0)
        cx.crashed.add(sig)
        run.violation(sig, dict(rep, error=repr(e)[:300]))
        return
    got_t = tree_vec(new_t) * new_t.coeff
    ref = L.expm_apply(h, psi0, tau)
    if normalize:
        ref = ref / np.linalg.norm(ref)
    tol = 1e-2 if method is PC else TOL_EXACT[method]
    e_t = float(np.linalg.norm(got_t - ref) / np.linalg.norm(ref))
    if method is not PC and e_t > tol:
        run.violation(f"evolve:{key}:vs-expm", dict(rep, rel_err=e_t, tol=tol))
    # chain side (its own defects belong to C09: count, do not report)
    mps2 = mps.copy()
    mps2.evolve_config = EvolveConfig(method, ivp_rtol=1e-8, ivp_atol=1e-10, force_ovlp=False) if method is VMF else \
        EvolveConfig(method, ivp_rtol=1e-8, ivp_atol=1e-10)
    mps2.compress_config = CompressConfig(CompressCriteria.fixed, max_bonddim=200)
    try:
        new_m = mps2.evolve(mpo, tau, normalize=normalize)
        got_m = np.asarray(new_m.todense()).ravel() * new_m.coeff
    except Exception as e:
        run.count(f"chain-side-error:{NAME[method]}:{type(e).__name__}")
        return
    e_m = float(np.linalg.norm(got_m - ref) / np.linalg.norm(ref))
    tol_m = 1e-2 if method is PC else (2e-4 if method is VMF else tol)
    if method is PC:
        pol = _tay4(h, psi0, tau)
        pol = pol / np.linalg.norm(pol) if normalize else pol
        if np.linalg.norm(got_m - pol) / np.linalg.norm(pol) > 1e-8:
            e_m = np.inf
        if np.linalg.norm(got_t - pol) / np.linalg.norm(pol) > TOL_POLY:
            run.violation(f"evolve:{key}:not-taylor4", dict(rep, rel_err_vs_polynomial=float(np.linalg.norm(got_t - pol) / np.linalg.norm(pol))))
    if e_m > tol_m:
        run.count(f"chain-side-inaccurate:{NAME[method]}")
        return
    d = float(np.linalg.norm(got_m - got_t) / np.linalg.norm(ref))
    # both P&C variants are the same degree-4 polynomial when nothing is truncated
    tol_d = 1e-8 if method is PC else (2e-4 if method is VMF else 2 * tol)
    if d > tol_d:
        run.violation(f"chain:{NAME[method]}:{'imag' if imag else 'real'}:tree-vs-chain", dict(rep, diff=d, tol=tol_d, err_tree=e_t, err_chain=e_m))
    run.count("chain:compared")


def fam_aux(cx):
    """P+Q tree state, operator on the P tree"""
    rng, run = cx.rng, cx.run
    # (BasisMultiElectron cannot be copied by add_auxiliary_space: not generated here)
    spec = L.gen_spec(rng, cx.quick, max_dim=12 if cx.quick else 16, kinds=["spin", "spin", "elec", "sho", "spin0"],
                      trivial_qn=bool(rng.random() < 0.5))
    tree, bs = L.make_tree(spec)
    tree2 = tree.add_auxiliary_space()
    ttno = TTNO(tree, L.make_ops(spec))
    # dense operator on P (x) Q in the pre-order of tree2: P_i, Q_i interleaved per basis set
    order, _, _ = L.tree_basis_order(spec)
    hp = L.dense_h(spec)
    dims_p = [spec["basis"][ib]["nbas"] if ib >= 0 else 1 for ib in order]
    npz = len(order)
    # build H (x) 1_Q with interleaved ordering by reshaping
    dim_p = int(np.prod(dims_p))
    big = np.kron(hp, np.eye(dim_p)).reshape(dims_p + dims_p + dims_p + dims_p)   # P,Q ; P',Q'
    perm = []
    for blk in (0, 2):
        for i in range(npz):
            perm += [blk * npz + i, (blk + 1) * npz + i]
    hfull = big.transpose(perm).reshape(dim_p * dim_p, dim_p * dim_p)
    # labels: Q sets carry zero labels
    lab_p = L.sector_labels(spec)
    labt = lab_p.reshape(dims_p + [spec["qn_size"]])
    labq = np.zeros((dim_p * dim_p, spec["qn_size"]), dtype=int)
    full = np.broadcast_to(labt.reshape(dims_p + [1] * npz + [spec["qn_size"]]), dims_p + dims_p + [spec["qn_size"]])
    perm2 = []
    for i in range(npz):
        perm2 += [i, npz + i]
    lab = np.ascontiguousarray(full.transpose(perm2 + [2 * npz])).reshape(-1, spec["qn_size"])
    # dummy sets have no Q partner in tree2: their Q axis has dimension 1 here as well, consistent
    q, cond = L.pick_sector(rng, spec)
    seed = int(rng.integers(1 << 30))
    t = _random_state(tree2, q, seed)
    if t is None:
        run.count("rejected:random-state")
        return
    if L.dense_ttns(t).size != hfull.shape[0]:
        run.count("rejected:aux-dim-mismatch")
        return
    hn = np.linalg.norm(hp, 2)
    state0 = dict(np_seed=seed, qntot=np.asarray(q).tolist(), tensors=L.tensors_json(t), aux=True)
    hist = []
    cx.distinct.add(("aux", len(spec["nodes"]), spec["qn_size"], tuple(sorted(b["kind"] for b in spec["basis"]))))
    for k in range(int(rng.integers(1, 3))):
        method, normalize = _pick(cx, spec, _draw_method(rng), aux=True)
        imag = bool(rng.random() < 0.6)
        tau = _tau(rng, hn, imag, 0.05, {PC: 0.6, VMF: 0.5}.get(method, 1.5))
        if method is VMF:
            t, prepared = _prep_vmf(rng, t)
            run.count("vmf:prepared" if prepared else "vmf:raw-bonds")
        hist.append((method, tau, normalize))
        new = _evolve_checked(cx, "aux", spec, ttno, hfull, lab, q, t, method, tau, normalize, TOL_EXACT, state0, hist)
        if new is None:
            return
        t = new


def fam_annihilated(cx):
    """a product state that H annihilates (vacuum / completely filled state under a pure hopping H):
    stationary under every scheme.  Known defect: P&C raises ValueError('Invalid quantum number')."""
    rng, run = cx.rng, cx.run
    nset = int(rng.integers(2, 5))
    basis = [dict(kind="spin", dof=f"s{i}", nbas=2, sigmaqn=[[0], [1]]) for i in range(nset)]
    nodes = [dict(parent=-1, sets=[0])]
    for i in range(1, nset):
        nodes.append(dict(parent=int(rng.integers(max(0, i - 2), i)), sets=[i]))
    terms = []
    for i in range(nset - 1):
        c = float(np.round(rng.uniform(0.3, 1.0), 3))
        terms.append(dict(symbol="sigma_- sigma_+", dofs=[f"s{i}", f"s{i + 1}"], factor=c, qn=[[1], [-1]]))
        terms.append(dict(symbol="sigma_+ sigma_-", dofs=[f"s{i}", f"s{i + 1}"], factor=c, qn=[[-1], [1]]))
    spec = dict(qn_size=1, basis=basis, nodes=nodes, terms=terms, family="annihilated", trivial_qn=False)
    tree, bs, ttno, h, lab = _build(spec)
    filled = bool(rng.random() < 0.5)
    t = TTNS(tree, {f"s{i}": (1 if filled else 0) for i in range(nset)})
    q = np.array([nset if filled else 0])
    state0 = dict(kind="hartree", occupation=int(filled), qntot=q.tolist(), tensors=L.tensors_json(t))
    method, normalize = _pick(cx, spec, _draw_method(rng))
    cx.n_annih = getattr(cx, "n_annih", 0) + 1
    if cx.n_annih == 1 or ("evolve:pc_tdrk4:H-annihilates-state:raises-ValueError" not in cx.crashed and rng.random() < 0.5):
        method = PC
    imag = bool(rng.random() < 0.5)
    tau = _tau(rng, np.linalg.norm(h, 2), imag, 0.05, 0.5)
    hist = [(method, tau, normalize)]
    cx.distinct.add(("annihilated", nset, filled, NAME[method], imag))
    # the sector is one-dimensional: every scheme must return the state itself
    _evolve_checked(cx, "annihilated", spec, ttno, h, lab, q, t, method, tau, normalize, TOL_EXACT, state0, hist)


FAMILIES = [("exact", fam_exact, 6), ("cluster", fam_cluster, 6), ("ps-any", fam_ps_any, 4), ("order", fam_order, 1),
            ("ps-order", fam_ps_order, 3), ("chain", fam_chain, 3), ("aux", fam_aux, 2), ("annihilated", fam_annihilated, 1)]


def search(run, rng, quick):
    cx = Ctx(run, rng, quick)
    rounds = 8 if quick else 90
    budget = 50.0 if quick else 540.0
    stop = False
    for r in range(rounds):
        for name, fn, reps in FAMILIES:
            for _ in range(reps):
                if time.time() - cx.t0 > budget:
                    run.count("budget-cutoff")
                    stop = True
                    break
                run.count("case:" + name)
                try:
                    fn(cx)
                except Exception as e:   # a library call of the set-up (TTNO/TTNS construction, add, canonicalise, ...) failed
                    import traceback
                    run.violation(f"setup:{name}:raises:{type(e).__name__}", dict(family=name, error=repr(e)[:300],
                                                                                  traceback=traceback.format_exc()[-1500:]))
            if stop:
                break
        if stop:
            break
    run.cov["evaluations"] = run.cov.get("evaluations", 0) + cx.n
    run.cov["distinct_nontrivial"] = len(cx.distinct)
    run.cov["max_rel_err_vs_expm_of_accepted_calls"] = {k: float(v) for k, v in sorted(cx.maxerr.items())}
    run.cov["tolerances"] = dict(tdvp_ps=TOL_EXACT[PS], tdvp_ps2=TOL_EXACT[PS2], tdvp_vmf=TOL_EXACT[VMF], vmf_default_ivp=TOL_VMF_DEFAULT,
                                 pc_vs_taylor4=TOL_POLY, sector=TOL_SECTOR, labels=TOL_LABEL)
    run.cov["rule"] = ("evaluations = TTNS.evolve calls judged by the dense oracle; distinct = different (family, #nodes, "
                       "tree family / bond pattern, label components, multiset of basis kinds) with a non-constant H on a sector of dimension >= 1")
