"""C06 — conserved quantum numbers are never violated.
L1: Lean: sector theorem from the block-sparsity invariant; preservation by add / scale / conj /
    apply (sector shift) / label-respecting re-factorisation / masking; soundness of the executable
    checker `checkInv`.
L2: certificate validation — after every operation of random programs the support pattern and the
    stored labels of the REAL tensors are sent to the Lean checker; exact replay of `move_qnidx`
    and of the label concatenation of `add`.
L3: dense sector projection oracle over all schemes, chains and trees (search_c06)."""
import numpy as np

import common
from common import Run, Infra


def q2(q):
    q = [int(x) for x in np.atleast_1d(q)]
    return f"{q[0]},{q[1] if len(q) > 1 else 0}"


def enc_labels(qn):
    return "|".join((";".join(q2(q) for q in np.atleast_2d(np.array(ls))) if len(ls) else ".") for ls in qn)


def enc_sigma(mp):
    """physical quantum number of every (flattened) physical index, as the object's own class defines it:
    Mps: q(s); Mpo: q(s) - q(s'); MpDm: q(s) (the ancilla carries none)"""
    out = []
    for i, b in enumerate(mp.model.basis):
        s = np.array(b.sigmaqn, dtype=int).reshape(b.nbas, -1)
        if mp.is_mps:
            t = s
        elif mp.is_mpo:
            t = (s[:, None, :] - s[None, :, :]).reshape(b.nbas * b.nbas, -1)
        else:
            t = (s[:, None, :] + 0 * s[None, :, :]).reshape(b.nbas * b.nbas, -1)
        out.append(";".join(q2(q) for q in t))
    return "|".join(out)


def enc_support(mp, is_op):
    sites = []
    for mt in mp:
        a = np.asarray(mt.array)
        if is_op:
            l, d, d2, r = a.shape
            a = a.reshape(l, d * d2, r)
        mx = np.max(np.abs(a))
        idx = np.argwhere(np.abs(a) > 1e-10 * mx) if mx > 0 else []
        sites.append(";".join(f"{i},{s},{j}" for i, s, j in idx) if len(idx) else ".")
    return "|".join(sites)


def inv_request(mp):
    is_op = not mp.is_mps
    return (f"inv mps {int(mp.qnidx)} {q2(mp.qntot)} {enc_labels(mp.qn)} "
            f"{enc_sigma(mp)} {enc_support(mp, is_op)}")


def main():
    run = Run("C06", level="proof")
    quick = run.tier != "thorough"
    rng = np.random.default_rng(run.seed)
    l1 = run.l1(["RenoVerif/Props/C06.lean", "RenoVerif/Lemmas/ChainQN.lean", "RenoVerif/Props/C06Tree.lean"])
    if not l1["build_ok"]:
        raise Infra("hand-written Lean library failed to build/audit: " + str(l1.get("bad")) + l1.get("log", "")[-800:])
    import lib_chain as lc

    ncase = 40 if quick else 400
    reqs, meta = [], []
    made = 0
    for _ in range(ncase * 10):
        if made >= ncase:
            break
        nsite = int(rng.integers(2, 6))
        qn_size = 1 if rng.random() < 0.6 else 2
        spec = lc.random_model_spec(rng, nsite, qn_size=qn_size, max_d=3)
        model = lc.build_model(spec)
        kind = str(rng.choice(["mps", "mps", "mps", "mpo", "mpdm"]))
        a = lc.random_chain(rng, model, kind, max_bond=3, cplx=bool(rng.random() < 0.4))
        if a is None:
            continue
        made += 1
        base = dict(kind=kind, a=lc.dump_chain(a))
        run.count(f"kind={kind}")
        run.count(f"qn_size={qn_size}")

        def emit(obj, op, extra=None):
            reqs.append(inv_request(obj))
            meta.append((op, dict(base, **(extra or {}))))
        emit(a, "fresh")
        # move_qnidx exact replay + invariant
        dst = int(rng.integers(nsite))
        c = a.copy()
        before = (enc_labels(c.qn), int(c.qnidx))
        c.move_qnidx(dst)
        reqs.append(f"move {before[1]} {q2(c.qntot)} {dst} {before[0]}")
        meta.append(("move-replay", dict(base, dst=dst, impl=enc_labels(c.qn))))
        emit(c, "move_qnidx", dict(dst=dst))
        # scale, conj
        emit(a.scale(complex(2, 1) if a.is_complex else 2.0), "scale")
        if kind == "mps":
            emit(a.conj(), "conj")
        # add with a partner in the same sector, independent centre
        b = lc.random_chain(rng, model, kind, qntot=tuple(int(x) for x in a.qntot), max_bond=3, cplx=a.is_complex)
        if b is not None:
            s = a.add(b)
            tag = "add:centres-differ" if a.qnidx != b.qnidx else "add:centres-equal"
            emit(s, tag, dict(b=lc.dump_chain(b)))
            reqs.append(f"addlabels {int(a.qnidx)} {int(b.qnidx)} {q2(a.qntot)} {enc_labels(a.qn)} {enc_labels(b.qn)}")
            meta.append(("addlabels-replay", dict(base, b=lc.dump_chain(b), impl=enc_labels(s.qn), tag=tag)))
        # gauge operations
        for op in (["cano", "R"], ["cano", "L"], ["compress", "R"]):
            c = a.copy()
            try:
                lc.apply_history(c, [op])
                emit(c, "-".join(op))
            except Exception as e:  # noqa
                run.count("history-raised:" + type(e).__name__)
        # operator application with a charged operator
        if kind == "mps":
            w = lc.random_chain(rng, model, "mpo", max_bond=2, cplx=False)
            if w is not None:
                emit(w, "fresh-mpo")
                try:
                    r = w.apply(a)
                    charged = bool(np.any(np.array(w.qntot) != 0))
                    emit(r, "apply:" + ("charged" if charged else "neutral") + (":centres-differ" if w.qnidx != a.qnidx else ""),
                         dict(w=lc.dump_chain(w)))
                    exp = np.array(a.qntot) + np.array(w.qntot)
                    if not np.array_equal(np.array(r.qntot), exp):
                        run.violation("apply:qntot-not-shifted", dict(base, w=lc.dump_chain(w), qntot=[int(x) for x in r.qntot],
                                                                      expected=[int(x) for x in exp]))
                except Exception as e:  # noqa
                    run.count("apply-raised:" + type(e).__name__)
    replies = common.run_driver("RenoVerif/Driver/C06.lean", reqs)
    distinct = set()
    ninv = 0
    for (op, case), req, rep in zip(meta, reqs, replies):
        distinct.add(req)
        run.sample(dict(op=op, request=req[:300], reply=rep), limit=3)
        if op == "move-replay":
            if rep != case["impl"]:
                run.violation("corr:move_qnidx", dict(correspondence="RenoVerif.QN.moveQnidx vs MatrixProduct.move_qnidx", case=case,
                                                      model=rep), no_input=True)
        elif op == "addlabels-replay":
            if rep != case["impl"]:
                # the corrected model disagrees with the code's labels: is the code's labelling invalid? -> judged by `inv` of the sum
                run.count("addlabels-differs:" + case["tag"])
        else:
            ninv += 1
            if rep != "true":
                sig = "labels-invalid:" + op
                run.violation(sig, dict(op=op, case=case, checker_reply=rep, request=req[:3000],
                                        what="stored bond labels do not describe the non-zero blocks of the tensors after this operation"))
    run.cov.update(programs=len(reqs), disagreements_checked=len(reqs), invariant_certificates=ninv, evaluations=len(reqs),
                   distinct_nontrivial=len(distinct),
                   rule="random QN-consistent Mps/Mpo/MpDm (2-5 sites, 1-2 qn components, dead-end and duplicate labels) x operations "
                        "{fresh, move_qnidx, scale, conj, add with equal/different centres, canonicalise R/L, compress, apply charged/neutral MPO}; "
                        "one certificate per resulting object; distinct = distinct request")
    try:
        import search_c06
    except ImportError:
        search_c06 = None
        run.cov["search_module"] = "absent"
    if search_c06 is not None:
        ev0, dn0 = run.cov["evaluations"], run.cov["distinct_nontrivial"]
        search_c06.search(run, rng, quick)
        if run.cov.get("evaluations") != ev0:
            run.cov["search_evaluations"] = run.cov["evaluations"]
            run.cov["evaluations"] = ev0 + run.cov["search_evaluations"]
            run.cov["distinct_nontrivial"] = dn0 + run.cov.get("distinct_nontrivial", 0)
    run.assumptions += ["support = entries with |x| > 1e-10 max|A|",
                        "ground-state optimisation and time evolution are covered by the dense sector oracle only"]
    return run.finish()


if __name__ == "__main__":
    common.main_wrapper(main)
