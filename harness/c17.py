"""C17 — fermionic Hamiltonians and site reordering keep the physics unchanged.
L1: Lean: simplify_word (every word over {σz,σ+,σ−}, any length), Jordan–Wigner swap table
    (exhaustive over the admitted site-operator alphabet).
L2: exact replay of the REAL `simplify_op` on random single- and multi-site words and of
    `table_row_swapped_jw` on all admitted pairs against the Lean model (signs and words).
    `generate_ladder_operator` symbol lists vs the model `ladder` (hypothesis of `ladder_prod`/`car`), BasisHalfSpin
    matrices of Z,+,- words vs `wordMat` (hypothesis of `one_site_relations`).
L3: independent fermionic-matrix oracle for qc_model, swap sequences (search_c17)."""
import numpy as np

import common
from common import Run, Infra

SYM2CH = {"Z": "Z", "+": "P", "-": "M", "sigma_z": "Z", "sigma_+": "P", "sigma_-": "M"}
CH2SYM = {"Z": "Z", "P": "+", "M": "-"}


def word_of(split_symbol):
    w = "".join(SYM2CH[s] for s in split_symbol if s != "I")
    return w if w else "-"


def main():
    run = Run("C17", level="proof")
    quick = run.tier != "thorough"
    rng = np.random.default_rng(run.seed)
    l1 = run.l1(["RenoVerif/Props/C17.lean", "RenoVerif/Props/C17CAR.lean"])
    if not l1["build_ok"]:
        raise Infra("hand-written Lean library failed to build/audit: " + str(l1.get("bad")) + l1.get("log", "")[-800:])
    from renormalizer.model import Op
    from renormalizer.model.h_qc import simplify_op
    from renormalizer.mps.symbolic_mpo import table_row_swapped_jw

    reqs, meta = [], []
    # ---- simplify_op: random words distributed over 1..3 orbitals
    n = 300 if quick else 3000
    for _ in range(n):
        norbs = int(rng.integers(1, 4))
        length = int(rng.integers(1, 8))
        syms = [str(rng.choice(["Z", "+", "-"])) for _ in range(length)]
        dofs = [int(rng.integers(norbs)) for _ in range(length)]
        op = Op(" ".join(syms), dofs, 1.0)
        try:
            res = simplify_op(op, norbs, conserve_qn=bool(rng.integers(2)))
        except Exception as e:  # noqa
            run.count("simplify-raised:" + type(e).__name__)
            continue
        # per site: model word -> (sign, word); total sign = product; the result lists sites in ascending order
        per = {}
        for s, d in zip(syms, dofs):
            per.setdefault(d, []).append(SYM2CH[s])
        exp_words = {}
        for s, d in zip(res.split_symbol, res.dofs):
            exp_words.setdefault(d, []).append(SYM2CH[s])
        case = dict(symbols=syms, dofs=dofs, result=[res.symbol, list(res.dofs), float(np.real(res.factor))])
        for d in sorted(per):
            reqs.append("simplify " + "".join(per[d]))
            meta.append(("simplify", case, d, "".join(exp_words.get(d, [])) or "-"))
        meta.append(("simplify-sign", case, None, float(np.real(res.factor))))
        reqs.append("simplify -")   # placeholder request keeps the lists aligned
        run.count(f"word-length={length}")
    # ---- swap table: all admitted pairs
    us = [[], ["+"], ["-"], ["+", "-"], ["-", "+"]]
    words = us + [["Z"] + u for u in us]

    def mkop(w, dof, style):
        if not w:
            return Op.identity(dof)
        if style == "sigma":
            return Op(" ".join("sigma_z" if s == "Z" else ("sigma_+" if s == "+" else "sigma_-") for s in w), dof,
                      qn=[0] * len(w))
        return Op(" ".join(w), dof, qn=[0] * len(w))      # the symbols qc_model emits: Z + -
    for style in ("sigma", "short"):
      for a in words:
        for b in words:
            prim = [Op.identity(0), mkop(a, 0, style), mkop(b, 1, style)]
            op2idx = {op: i for i, op in enumerate(prim)}
            try:
                row, coeff = table_row_swapped_jw([0, 1, 2, 0, 0], prim, op2idx)
            except AssertionError:
                run.count("swap-assert")
                continue
            n1 = prim[row[1]]
            n2 = prim[row[2]]
            reqs.append(f"swap {word_of(a)} {word_of(b)}")
            meta.append(("swap", dict(op1=a, op2=b, symbols=style), None,
                         f"{'-' if coeff == -1 else '+'} {word_of(n1.split_symbol)} {word_of(n2.split_symbol)}"))
    # ---- ladder operators and site matrices: hypotheses of Props/C17CAR (`car`, `ladder_prod`, `one_site_relations`)
    from renormalizer.model.h_qc import generate_ladder_operator
    from renormalizer.model.basis import BasisHalfSpin
    for norbs in ([1, 2, 3, 5, 8] if quick else [1, 2, 3, 4, 5, 6, 8, 12, 16]):
        a_ops, ad_ops = generate_ladder_operator(norbs)
        for j in range(norbs):
            for dag, op in ((0, a_ops[j]), (1, ad_ops[j])):
                reqs.append(f"ladder {j} {dag}")
                impl = " ".join(f"{int(d)}:{word_of([sym])}" for sym, d in zip(op.split_symbol, op.dofs))
                if complex(op.factor) != 1:
                    impl += f" factor={op.factor}"
                meta.append(("ladder", dict(norbs=norbs, j=j, dagger=bool(dag)), None, impl))
    hs = BasisHalfSpin(0)
    for w in ["Z", "P", "M", "ZP", "PZ", "ZM", "MZ", "PM", "MP", "ZZ", "PP", "MM", "ZPM", "MZP"]:
        reqs.append("mat " + w)
        m = hs.op_mat(" ".join(CH2SYM[c] for c in w))
        if np.abs(np.asarray(m).imag).max() > 0 or np.abs(m - np.round(m.real)).max() > 0:
            impl = "non-integer " + repr(np.asarray(m).tolist())
        else:
            impl = " ".join(str(int(x)) for x in np.asarray(m.real).ravel())
        meta.append(("mat", dict(word=w), None, impl))
    replies = common.run_driver("RenoVerif/Driver/C17.lean", reqs)
    # evaluate
    distinct = set()
    sign_acc = {}
    ndis = 0
    it = iter(zip(meta, reqs, replies))
    cur_sign = 1
    for (kind, case, d, impl), req, rep in it:
        if kind == "simplify":
            sgn, w = rep.split(" ")
            cur_sign *= (-1 if sgn == "-" else 1)
            distinct.add(req)
            if w != impl:
                ndis += 1
                run.violation("corr:simplify_op:word", dict(correspondence="RenoVerif.JW.simplifyWord vs h_qc.simplify_op", case=case, site=d,
                                                            model=w, impl=impl), no_input=True)
        elif kind == "simplify-sign":
            if float(cur_sign) != impl:
                ndis += 1
                run.violation("corr:simplify_op:sign", dict(correspondence="sign of simplify_op", case=case, model=cur_sign, impl=impl),
                              no_input=True)
            cur_sign = 1
        elif kind in ("ladder", "mat"):
            distinct.add(req)
            run.count("tie:" + kind)
            if rep != impl:
                ndis += 1
                run.violation("corr:" + ("generate_ladder_operator" if kind == "ladder" else "BasisHalfSpin.op_mat"),
                              dict(correspondence="RenoVerif.JW.ladder vs h_qc.generate_ladder_operator" if kind == "ladder"
                                   else "RenoVerif.JW.wordMat vs BasisHalfSpin.op_mat", case=case, model=rep, impl=impl), no_input=True)
        else:
            distinct.add(req)
            run.sample(dict(kind=kind, request=req, model=rep, impl=impl), limit=4)
            if rep != impl:
                ndis += 1
                run.violation("corr:table_row_swapped_jw", dict(correspondence="RenoVerif.JW.swapJW vs symbolic_mpo.table_row_swapped_jw",
                                                                case=case, model=rep, impl=impl), no_input=True)
    run.cov.update(programs=len(reqs), disagreements_checked=len(reqs), disagreements_found=ndis, evaluations=len(reqs),
                   distinct_nontrivial=len(distinct),
                   rule="random words (length 1-7 over Z,+,-) spread over 1-3 orbitals through the real simplify_op, per-site words and total sign "
                        "compared; all 100 admitted operator pairs through the real table_row_swapped_jw; distinct = distinct request")
    try:
        import search_c17
    except ImportError:
        search_c17 = None
        run.cov["search_module"] = "absent"
    if search_c17 is not None:
        ev0, dn0 = run.cov["evaluations"], run.cov["distinct_nontrivial"]
        search_c17.search(run, rng, quick)
        if run.cov.get("evaluations") != ev0:
            run.cov["search_evaluations"] = run.cov["evaluations"]
            run.cov["evaluations"] = ev0 + run.cov["search_evaluations"]
            run.cov["distinct_nontrivial"] = dn0 + run.cov.get("distinct_nontrivial", 0)
    run.assumptions += ["Props/C17CAR proves the canonical anticommutation relations of the Jordan-Wigner ladder operators for every orbital "
                        "count in any ring whose site operators obey the one-site relations and commute across sites; that tensor-product "
                        "operators on different sites commute, and the step from CAR to equality of the assembled Hamiltonian with the "
                        "fermionic matrix (universal property of the CAR algebra), are not formalised: the dense oracle covers 1-4 spatial orbitals",
                        "the swap rule is proved as FSWAP conjugation on the two affected sites"]
    return run.finish()


if __name__ == "__main__":
    common.main_wrapper(main)
