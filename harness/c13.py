"""C13 — operations return new objects and never disturb their inputs.
L1: Lean: effect model (derive / mutate / observe): well-formedness invariant, frame theorems,
    no_interference over every finite program.
L2: the three effect classes on the REAL chain objects: for random programs over a table of public
    methods classified as derive / mutate / observe, every live object other than the one a `mutate`
    addresses must represent the same dense vector (tensor part x prefactor) after each step, and the
    mutable containers (`_mp` list, `qn` list) of a derived object must not be those of its source.
L3: the same for every scheme, MpDm, trees, zero and non-zero offsets (search_c13)."""
import os

import numpy as np

import common
import generic_check


def l2_effects(run, rng, quick):
    import lib_chain as lc
    done = 0
    DERIVE = {
        "copy": lambda a, b: a.copy(),
        "conj": lambda a, b: a.conj(),
        "scale": lambda a, b: a.scale(1.5),
        "to_complex": lambda a, b: a.to_complex(),
        "add": lambda a, b: a.add(b),
    }
    MUTATE = {
        "canonicalise": lambda a: (a.ensure_right_canonical() if False else lc.apply_history(a, [["cano", "R"]])),
        "compress": lambda a: lc.apply_history(a, [["compress", "L"]]),
        "scale_inplace": lambda a: a.scale(-2.0, inplace=True),
        "move_qnidx": lambda a: a.move_qnidx(0),
        "normalize": lambda a: a.normalize("mps_and_coeff"),
    }
    OBSERVE = {
        "todense": lambda a: a.todense(),
        "norm": lambda a: a.norm,
        "dot": lambda a: a.conj().dot(a),
        "bond_dims": lambda a: a.bond_dims,
    }
    for _ in range(15 if quick else 150):
        nsite = int(rng.integers(2, 5))
        spec = lc.random_model_spec(rng, nsite, qn_size=1, max_d=3)
        model = lc.build_model(spec)
        a = lc.random_chain(rng, model, "mps", max_bond=3, cplx=bool(rng.random() < 0.5), coeff=float(rng.choice([1.0, 0.5, -2.0])))
        if a is None:
            continue
        b = lc.random_chain(rng, model, "mps", qntot=tuple(int(x) for x in a.qntot), max_bond=3, coeff=float(rng.choice([1.0, 3.0])))
        if b is None:
            continue
        live = [a, b]
        prog = []
        for _step in range(int(rng.integers(3, 9))):
            ref = [lc.dense_state(x).copy() for x in live]
            k = rng.random()
            i = int(rng.integers(len(live)))
            j = int(rng.integers(len(live)))
            target = None
            try:
                if k < 0.45:
                    name = str(rng.choice(list(DERIVE)))
                    new = DERIVE[name](live[i], live[j])
                    prog.append([name, i, j])
                    src = live[i]
                    if new is src or new._mp is src._mp or new.qn is src.qn:
                        run.violation("derive:shares-mutable-container:" + name,
                                      dict(program=prog, what="result shares the tensor list or the label list with its source"))
                    live.append(new)
                    ref.append(None)
                elif k < 0.8:
                    name = str(rng.choice(list(MUTATE)))
                    MUTATE[name](live[i])
                    prog.append([name, i])
                    target = i
                else:
                    name = str(rng.choice(list(OBSERVE)))
                    OBSERVE[name](live[i])
                    prog.append([name, i])
            except Exception as e:  # noqa
                run.count("step-raised:" + type(e).__name__)
                break
            done += 1
            run.count("op=" + prog[-1][0])
            for idx, (x, r) in enumerate(zip(live, ref)):
                if r is None:
                    continue
                now = lc.dense_state(x)
                scale = max(1.0, float(np.max(np.abs(r))))
                lossless_mut = idx == target and prog[-1][0] in ("canonicalise", "compress", "move_qnidx")
                if idx == target and not lossless_mut:
                    continue
                if now.shape != r.shape or np.max(np.abs(now - r)) > 1e-9 * scale:
                    sig = ("mutate:changes-represented-object:" if idx == target else "interference:") + prog[-1][0]
                    run.violation(sig, dict(program=prog, object=idx, chain_a=lc.dump_chain(a), chain_b=lc.dump_chain(b),
                                            deviation=float(np.max(np.abs(now - r))) if now.shape == r.shape else -1.0,
                                            what="an operation changed the vector represented by an object it must not change"))
    return done


def l2_disk_backed(run, rng, quick):
    """states whose site matrices live on disk (`CompressConfig.dump_matrix_size`): the files belong to the object that wrote
    them; measuring, copying or deriving from such a state must leave it readable and unchanged."""
    import tempfile
    from renormalizer.model import Model, Op, basis as ba
    from renormalizer.mps import Mps, Mpo
    from renormalizer.utils import CompressConfig, CompressCriteria, EvolveConfig, EvolveMethod
    done = 0
    cwd = os.getcwd()
    with tempfile.TemporaryDirectory(prefix="c13_disk_") as tmp:
        os.chdir(tmp)
        try:
            for _ in range(3 if quick else 20):
                n = int(rng.integers(3, 6))
                basis = [ba.BasisHalfSpin(i) for i in range(n)]
                terms = [Op("sigma_x sigma_x", [i, i + 1], 0.7) for i in range(n - 1)] + [Op("sigma_z", i, 0.3 * (i + 1)) for i in range(n)]
                model = Model(basis, terms)
                mpo = Mpo(model)
                np.random.seed(int(rng.integers(2 ** 31)))
                base = Mps.random(model, 0, 4, 1.0)
                if rng.random() < 0.5:
                    base = base.to_complex()
                base.compress_config = CompressConfig(CompressCriteria.fixed, max_bonddim=4, dump_matrix_size=1, dump_matrix_dir=tmp)
                src = base.copy()              # the copy writes its matrices to disk
                on_disk = sum(1 for m in src._mp if isinstance(m, str))
                run.count(f"disk-backed:matrices-on-disk={'all' if on_disk == len(src._mp) else on_disk}")
                ref = np.asarray(src.todense()).ravel() * complex(src.coeff)
                ops = [("copy", lambda s: s.copy()), ("calc_bond_entropy", lambda s: s.calc_bond_entropy()),
                       ("calc_entropy(bond)", lambda s: s.calc_entropy("bond")), ("expectation", lambda s: s.expectation(mpo)),
                       ("conj", lambda s: s.conj()), ("scale", lambda s: s.scale(0.5)), ("add", lambda s: s.add(s)),
                       ("apply", lambda s: mpo.apply(s)), ("copy.canonicalise", lambda s: s.copy().canonicalise()),
                       ("copy.compress", lambda s: s.copy().canonicalise().compress()), ("e_occupations", lambda s: s.expectations([mpo, mpo])),
                       ("evolve", lambda s: s.evolve(mpo, 0.05))]
                src.evolve_config = EvolveConfig(EvolveMethod.tdvp_ps)
                for name, op in ops:
                    try:
                        res = op(src)
                    except Exception as e:  # noqa
                        run.count(f"disk-backed:op-raised:{name}:{type(e).__name__}")
                        res = None
                    try:
                        now = np.asarray(src.todense()).ravel() * complex(src.coeff)
                        bad = float(np.max(np.abs(now - ref))) > 1e-12 * max(1.0, float(np.max(np.abs(ref))))
                        err = None
                    except Exception as e:  # noqa
                        bad, err = True, repr(e)[:200]
                    done += 1
                    if bad:
                        run.violation(f"disk-backed:{name}:input-destroyed" if err else f"disk-backed:{name}:input-changed",
                                      dict(nsite=n, operation=name, error=err,
                                           what="an operation on a state whose matrices are kept on disk (dump_matrix_size) destroyed or changed that state"))
                        break
                    del res
        finally:
            os.chdir(cwd)
    run.cov["disk_backed_operations"] = done
    return done


if __name__ == "__main__":
    common.main_wrapper(lambda: generic_check.run_check(
        "C13", "proof", ["RenoVerif/Props/C13.lean"], [l2_effects, l2_disk_backed],
        ["raw sharing of immutable NumPy buffers (e.g. conj() of a real state) is allowed by the model; what is forbidden is a change of the represented object",
         "documented exemptions: OFS reorders the Hamiltonian passed in; the optimiser overwrites its initial guess",
         "evolution schemes, MpDm, trees and non-zero offsets are covered by search_c13"],
        "random programs (3-8 steps) over derive {copy, conj, scale, to_complex, add} / mutate {canonicalise, compress, scale(inplace), move_qnidx, normalize} / "
        "observe {todense, norm, dot, bond_dims} on pairs of random QN-consistent Mps with prefactors; one evaluation per step"))
