"""C13 — operations return new objects and never disturb their inputs.
L1: Lean: effect model (derive / mutate / observe): well-formedness invariant, frame theorems,
    no_interference over every finite program.
L2: the three effect classes on the REAL chain objects: for random programs over a table of public
    methods classified as derive / mutate / observe, every live object other than the one a `mutate`
    addresses must represent the same dense vector (tensor part x prefactor) after each step, and the
    mutable containers (`_mp` list, `qn` list) of a derived object must not be those of its source.
L3: the same for every scheme, MpDm, trees, zero and non-zero offsets (search_c13)."""
import numpy as np

import common
import generic_check


def l2_effects(run, rng, quick):
    import lib_chain as lc
    done = 0
    DERIVE = {
        "copy": lambda a, b: a.copy(),
        "conj": lambda a, b: a.conj(),
        "scale": lambda a, b: a.scale(1.5),
        "to_complex": lambda a, b: a.to_complex(),
        "add": lambda a, b: a.add(b),
    }
    MUTATE = {
        "canonicalise": lambda a: (a.ensure_right_canonical() if False else lc.apply_history(a, [["cano", "R"]])),
        "compress": lambda a: lc.apply_history(a, [["compress", "L"]]),
        "scale_inplace": lambda a: a.scale(-2.0, inplace=True),
        "move_qnidx": lambda a: a.move_qnidx(0),
        "normalize": lambda a: a.normalize("mps_and_coeff"),
    }
    OBSERVE = {
        "todense": lambda a: a.todense(),
        "norm": lambda a: a.norm,
        "dot": lambda a: a.conj().dot(a),
        "bond_dims": lambda a: a.bond_dims,
    }
    for _ in range(15 if quick else 150):
        nsite = int(rng.integers(2, 5))
        spec = lc.random_model_spec(rng, nsite, qn_size=1, max_d=3)
        model = lc.build_model(spec)
        a = lc.random_chain(rng, model, "mps", max_bond=3, cplx=bool(rng.random() < 0.5), coeff=float(rng.choice([1.0, 0.5, -2.0])))
        if a is None:
            continue
        b = lc.random_chain(rng, model, "mps", qntot=tuple(int(x) for x in a.qntot), max_bond=3, coeff=float(rng.choice([1.0, 3.0])))
        if b is None:
            continue
        live = [a, b]
        prog = []
        for _step in range(int(rng.integers(3, 9))):
            ref = [lc.dense_state(x).copy() for x in live]
            k = rng.random()
            i = int(rng.integers(len(live)))
            j = int(rng.integers(len(live)))
            target = None
            try:
                if k < 0.45:
                    name = str(rng.choice(list(DERIVE)))
                    new = DERIVE[name](live[i], live[j])
                    prog.append([name, i, j])
                    src = live[i]
                    if new is src or new._mp is src._mp or new.qn is src.qn:
                        run.violation("derive:shares-mutable-container:" + name,
                                      dict(program=prog, what="result shares the tensor list or the label list with its source"))
                    live.append(new)
                    ref.append(None)
                elif k < 0.8:
                    name = str(rng.choice(list(MUTATE)))
                    MUTATE[name](live[i])
                    prog.append([name, i])
                    target = i
                else:
                    name = str(rng.choice(list(OBSERVE)))
                    OBSERVE[name](live[i])
                    prog.append([name, i])
            except Exception as e:  # noqa
                run.count("step-raised:" + type(e).__name__)
                break
            done += 1
            run.count("op=" + prog[-1][0])
            for idx, (x, r) in enumerate(zip(live, ref)):
                if r is None:
                    continue
                now = lc.dense_state(x)
                scale = max(1.0, float(np.max(np.abs(r))))
                lossless_mut = idx == target and prog[-1][0] in ("canonicalise", "compress", "move_qnidx")
                if idx == target and not lossless_mut:
                    continue
                if now.shape != r.shape or np.max(np.abs(now - r)) > 1e-9 * scale:
                    sig = ("mutate:changes-represented-object:" if idx == target else "interference:") + prog[-1][0]
                    run.violation(sig, dict(program=prog, object=idx, chain_a=lc.dump_chain(a), chain_b=lc.dump_chain(b),
                                            deviation=float(np.max(np.abs(now - r))) if now.shape == r.shape else -1.0,
                                            what="an operation changed the vector represented by an object it must not change"))
    return done


if __name__ == "__main__":
    common.main_wrapper(lambda: generic_check.run_check(
        "C13", "proof", ["RenoVerif/Props/C13.lean"], [l2_effects],
        ["raw sharing of immutable NumPy buffers (e.g. conj() of a real state) is allowed by the model; what is forbidden is a change of the represented object",
         "documented exemptions: OFS reorders the Hamiltonian passed in; the optimiser overwrites its initial guess",
         "evolution schemes, MpDm, trees and non-zero offsets are covered by search_c13"],
        "random programs (3-8 steps) over derive {copy, conj, scale, to_complex, add} / mutate {canonicalise, compress, scale(inplace), move_qnidx, normalize} / "
        "observe {todense, norm, dot, bond_dims} on pairs of random QN-consistent Mps with prefactors; one evaluation per step"))
