"""C07 failing-input search: observables computed from the network equal their dense definitions.

Oracles (all NumPy on tensors contracted here, never the library's own todense()):
  * expectation(O)              = <psi|O|psi>            (Mps)   /  Tr(M^dag O M)  (MpDm)
  * expectation(O, self_conj=X) = sum X_s O_st psi_t     (the caller passes the conjugated bra;
                                  the oracle contracts X as given)      / Tr(X^T O M) (MpDm)
  * expectations(list)          = the one-by-one path (opt=False) = dense, any list in any order
  * e_occupations / ph_occupations / calc_edof_rdm against independently built local matrices
  * calc_1site_rdm / calc_2site_rdm against partial traces of |Psi><Psi|
  * calc_entropy("1site"|"2site"|"mutual"|"bond"), calc_bond_entropy, calc_bond_singular_values
    against scipy-free dense SVD / eigendecompositions (the code normalises the spectrum)
Conventions followed (code's documented ones): observables exclude the scalar `coeff`; a float is
returned when |Im| <= 1e-8 (np.isclose) - the oracle then requires |Im(dense)| <= 1e-8 + tol.
"""
import time

import numpy as np

from renormalizer import Model, Mps, Mpo, Op
from renormalizer.model import OpSum
from renormalizer.mps import MpDm

import lib_c07c13 as L

SEEN = {}
TOLC = 256.0   # tolerance = TOLC * eps * nsite * scale, scale = product of the Frobenius norms of all site
               # tensors entering the contraction.  Calibrated: the largest observed error over seeds 0..19 is
               # < 2 % of this tolerance (evidence key max_error_over_tolerance)
RDM_CONJ_IS_FINDING = True   # see Checker.rdms


# ------------------------------------------------------------------------------------ helpers
def pnorm(arrs):
    """product of the Frobenius norms of the site tensors: the natural magnitude of every
    intermediate of a chain contraction (>= norm of the contracted object)"""
    return float(np.prod([np.linalg.norm(a) for a in arrs]))


MAXR = [0.0]


def _track(err, tol):
    """largest observed error / tolerance on passing comparisons (calibration record)"""
    if tol > 0 and np.isfinite(err) and err <= tol:
        MAXR[0] = max(MAXR[0], float(err) / tol)


def _tol(n, scale):
    return TOLC * L.EPS * max(n, 1) * max(scale, 1e-300)


def _cmp_scalar(got, want, tol):
    """got: python float or complex from the library; want: complex dense value.
    Returns None if fine, else a reason string."""
    if isinstance(got, complex) or np.iscomplexobj(got):
        _track(abs(complex(got) - complex(want)), tol)
        if abs(complex(got) - complex(want)) > tol:
            return "value"
        return None
    # float returned: imaginary part was judged negligible by the code (|Im| <= 1e-8)
    _track(abs(float(got) - complex(want).real), tol)
    if abs(float(got) - complex(want).real) > tol:
        return "value"
    if abs(complex(want).imag) > 1e-8 + tol:
        return "imag-dropped"
    return None


def _cmp_vec(got, want, tol):
    got = np.asarray(got)
    want = np.asarray(want, dtype=complex)
    if got.shape != want.shape:
        return "shape"
    if np.iscomplexobj(got):
        _track(np.max(np.abs(got - want), initial=0.0), tol)
        if np.max(np.abs(got - want), initial=0.0) > tol:
            return "value"
        return None
    _track(np.max(np.abs(got - want.real), initial=0.0), tol)
    if np.max(np.abs(got - want.real), initial=0.0) > tol:
        return "value"
    if np.max(np.abs(want.imag), initial=0.0) > 1e-8 + tol:
        return "imag-dropped"
    return None


def vn_entropy(p):
    p = np.asarray(p, dtype=float)
    p = p / p.sum()
    p = p[p > 0]
    return float(-(p * np.log(p)).sum())


def entropy_dm(dm):
    w = np.linalg.eigvalsh((dm + dm.conj().T) / 2)
    return vn_entropy(np.where(w > 0, w, 0.0)) if np.any(w > 0) else 0.0


class GenError(Exception):
    """the library rejected something the *generator* asked for (building an operator, a bra state, ...):
    counted, never a violation of C07"""


class Case:
    """one generated (model, state) pair with its dense data"""

    def __init__(self, rng, quick):
        self.rng = rng
        kinds = ["zeroqn", "zeroqn", "elec", "elec", "multi", "2qn"]
        self.kind = str(rng.choice(kinds))
        nmax = 5 if quick else 6
        self.n = int(rng.choice(np.arange(1, nmax + 1), p=self._pn(nmax)))
        self.form = "mpdm" if rng.random() < 0.35 else "mps"
        if self.form == "mpdm" and self.n > 4:
            self.n = 4
        self.cplx = bool(rng.random() < 0.5)
        self.desc = L.gen_basis_desc(rng, self.kind, self.n)
        self.basis = L.build_basis(self.desc)
        self.model = Model(self.basis, [])
        self.pdims = [b.nbas for b in self.basis]
        self.hist = []
        self.mp = self._state(self.cplx)
        self.arrs = L.arrays(self.mp)
        self.T = L.dense_chain(self.arrs)           # tensor with physical legs
        self.sscale = pnorm(self.arrs)
        if self.form == "mps":
            self.vec = self.T.reshape(-1)
            self.nrm2 = float(np.vdot(self.vec, self.vec).real)
        else:
            self.M = L.dense_op(self.arrs)           # rows: physical, cols: ancilla
            self.nrm2 = float(np.vdot(self.M, self.M).real)

    @staticmethod
    def _pn(nmax):
        w = np.array([0.6, 1.0, 1.6, 1.6, 1.2, 0.8][:nmax])
        return w / w.sum()

    # -------------------------------------------------------------------------- state generator
    def _state(self, cplx, other=False):
        try:
            return self._state_raw(cplx, other)
        except GenError:
            raise
        except Exception as e:
            raise GenError(f"state:{type(e).__name__}") from e

    def _state_raw(self, cplx, other=False):
        rng = self.rng
        legs = 3 if self.form == "mps" else 4
        cls = Mps if self.form == "mps" else MpDm
        hist = self.hist if not other else []
        if self.kind == "zeroqn":
            ts = L.rand_tensors(rng, self.pdims, cplx, legs=legs, maxbond=4 if legs == 3 else 3)
            if rng.random() < 0.5:
                ts = L.random_gauge_matrices(ts, rng, cplx)
                hist.append("raw-gauge")
            mp = L.mps_from_tensors(self.model, ts, cls)
            if rng.random() < 0.3:
                mp.coeff = complex(0.3, -1.1) if rng.random() < 0.5 else -2.0
                hist.append("coeff!=1")
        else:
            a, qntot = L.random_qn_mps(self.model, self.desc, rng, cplx)
            hist.append(f"Mps.random(qntot={np.asarray(qntot).tolist()})+combos")
            if self.form == "mps":
                mp = a
            else:
                mp = MpDm.from_mps(a)
                # make the ancilla non-trivial: multiply by a label-free random operator of bond 1-2
                if rng.random() < 0.5:
                    # rho.O acts on the label-free ancilla leg: any operator keeps labels consistent
                    o = self._hand_mpo(cplx=bool(cplx and rng.random() < 0.7), maxbond=2)
                    mp = mp.apply(o)
                    hist.append("from_mps;rho.apply(hand-op)")
                else:
                    # O.rho acts on the labelled physical leg: use a label-conserving symbolic operator
                    o = Mpo(self.model, self.conserving_opsum(cplx))
                    mp = o.apply(mp)
                    hist.append("from_mps;O.apply(rho)")
                if not np.any(L.dense_chain(L.arrays(mp))):
                    mp = MpDm.from_mps(a)
        if self.n >= 2 and self.kind != "zeroqn" and self.form == "mps":
            L.gauge_history(mp, rng, hist=hist)
        elif self.n >= 2 and self.kind == "zeroqn":
            L.gauge_history(mp, rng, hist=hist)
        if not other and rng.random() < 0.04:
            mp.scale(3.0e4, inplace=True)     # 'normalised or not': a state of large norm
            hist.append("scale(3e4)")
        return mp

    # -------------------------------------------------------------------------- operators
    def _hand_mpo(self, cplx, maxbond=3, bonds=None, pool=None):
        """operator built from raw random site tensors (labels all zero; expectation() is a pure
        contraction and never looks at operator labels)"""
        rng = self.rng
        n = self.n
        if bonds is None:
            bonds = [1] + [int(rng.integers(1, maxbond + 1)) for _ in range(n - 1)] + [1]
        ts = []
        for i, p in enumerate(self.pdims):
            ts.append(L.rnd(rng, (bonds[i], p, p, bonds[i + 1]), cplx))
        return Mpo.from_mp(self.model, ts)

    def _sym_alphabet(self, i):
        d = self.desc[i]
        if d[0] in ("spin", "spin2"):
            return [("X", d[1]), ("Z", d[1]), ("Y", d[1]), ("sigma_+", d[1]), ("I", d[1])]
        if d[0] in ("sho", "sho2"):
            return [("x", d[1]), (r"b^\dagger b", d[1]), ("p", d[1]), ("b", d[1]), (r"b^\dagger", d[1]), ("x^2", d[1])]
        if d[0] == "se":
            return [(r"a^\dagger a", d[1]), ("I", d[1]), ("a", d[1]), (r"a^\dagger", d[1])]
        if d[0] in ("me", "mev"):
            out = []
            for x in d[1]:
                for y in d[1]:
                    out.append((r"a^\dagger a", [x, y]))
            return out
        raise ValueError(d)

    def conserving_opsum(self, cplx):
        """sum of products of local operators that conserve the labels (plus the identity)"""
        rng = self.rng
        terms = [Op("I", self.desc[0][1] if self.desc[0][0] not in ("me", "mev") else self.desc[0][1][0]) * 1.0]
        if self.desc[0][0] in ("me", "mev"):
            terms = []
        for _ in range(int(rng.integers(1, 4))):
            k = int(rng.integers(1, min(self.n, 2) + 1))
            sites = sorted(rng.choice(self.n, size=k, replace=False).tolist())
            op = None
            for s in sites:
                d = self.desc[s]
                if d[0] == "spin":
                    o = Op(str(rng.choice(["X", "Z", "sigma_+"])), d[1])
                elif d[0] == "spin2":
                    o = Op("Z", d[1])
                elif d[0] in ("sho", "sho2"):
                    o = Op(str(rng.choice(["x", r"b^\dagger b", "b"])), d[1])
                elif d[0] == "se":
                    o = Op(r"a^\dagger a", d[1])
                else:
                    x, y = rng.choice(len(d[1]), size=2)
                    o = Op(r"a^\dagger a", [d[1][int(x)], d[1][int(y)]])
                op = o if op is None else op * o
            fac = complex(float(rng.choice([1.0, -0.5, 2.0])), float(rng.choice([0.7, -1.3])) if cplx else 0.0)
            terms.append(op * (fac if cplx else fac.real))
        # hopping between two simple-electron sites conserves the total label
        se = [d[1] for d in self.desc if d[0] == "se"]
        if len(se) >= 2 and rng.random() < 0.6:
            i, j = rng.choice(len(se), size=2, replace=False)
            f = complex(0.8, 0.3) if cplx else 0.8
            terms.append(Op(r"a^\dagger a", [se[int(i)], se[int(j)]]) * f)
        return OpSum(terms)

    def sym_op(self, nfac=None):
        """random product Op over distinct sites with a (complex) factor"""
        rng = self.rng
        n = self.n
        k = int(rng.integers(1, min(n, 3) + 1)) if nfac is None else nfac
        sites = sorted(rng.choice(n, size=k, replace=False).tolist())
        op = None
        for s in sites:
            al = self._sym_alphabet(s)
            sym, dof = al[int(rng.integers(0, len(al)))]
            o = Op(sym, dof)
            op = o if op is None else op * o
        fac = complex(float(rng.choice([1.0, -0.5, 2.0])), float(rng.choice([0.0, 0.0, 0.7, -1.3])))
        return op * fac


# ------------------------------------------------------------------------------------ dense observables
def dense_expect(case, Oarrs, bra_arrs=None):
    O = L.dense_op(Oarrs)
    scale = case.sscale * pnorm(Oarrs) * (case.sscale if bra_arrs is None else pnorm(bra_arrs))
    if case.form == "mps":
        bra = case.vec.conj() if bra_arrs is None else L.dense_vec(bra_arrs)
        return complex(bra @ (O @ case.vec)), scale
    Mb = case.M.conj() if bra_arrs is None else L.dense_op(bra_arrs)
    val = complex(np.sum(Mb * (O @ case.M)))
    return val, scale


def local_expect(case, i, mat):
    """<psi| mat_i |psi> (or Tr(M^dag mat_i M)) by contracting on the tensor with physical legs"""
    T = case.T
    ax = i if case.form == "mps" else 2 * i
    t2 = np.moveaxis(np.tensordot(mat, T, axes=([1], [ax])), 0, ax)
    return complex(np.vdot(T, t2))


def rdm1_dense(case, i):
    """<p| Tr_rest |Psi><Psi| |q>  (standard matrix-element convention)"""
    T = case.T
    ax = i if case.form == "mps" else 2 * i
    t = np.moveaxis(T, ax, 0).reshape(T.shape[ax], -1)
    return t @ t.conj().T


def rdm2_dense(case, i, j):
    T = case.T
    a, b = (i, j) if case.form == "mps" else (2 * i, 2 * j)
    t = np.moveaxis(T, (a, b), (0, 1))
    t = t.reshape(T.shape[a] * T.shape[b], -1)
    return t @ t.conj().T


def bond_svals(case, k):
    """singular values across the bond between sites k and k+1"""
    T = case.T
    nl = (k + 1) if case.form == "mps" else 2 * (k + 1)
    m = T.reshape(int(np.prod(T.shape[:nl])), -1)
    return np.linalg.svd(m, compute_uv=False)


# ------------------------------------------------------------------------------------ checks
class Checker:
    def __init__(self, run, case, idx):
        self.run = run
        self.c = case
        self.idx = idx
        self.nfail = 0

    def cls(self):
        c = self.c
        return f"{c.form}:{'complex' if c.cplx else 'real'}"

    def fail(self, what, detail, extra=None):
        c = self.c
        self.nfail += 1
        sig = f"{what}"
        SEEN[sig] = SEEN.get(sig, 0) + 1
        self.run.count("fail:" + sig)
        if SEEN[sig] > 2:     # keep two replays per signature
            return
        obj = dict(case=self.idx, kind=c.kind, form=c.form, complex=c.cplx, basis=c.desc, history=c.hist,
                   state=L.ser_mp(c.mp), detail=detail)
        if extra:
            obj.update(extra)
        self.run.violation(sig, obj)

    # ---- expectation --------------------------------------------------------------------
    def expectation(self):
        c, rng = self.c, self.c.rng
        n = c.n
        # (a) hand-built operator, (b) symbolic Mpo, (c) Op / OpSum passed directly
        choice = int(rng.integers(0, 3))
        if choice == 0:
            o = c._hand_mpo(cplx=bool(rng.random() < 0.5))
            arg = o
            tag = "hand"
        elif choice == 1:
            op = c.sym_op()
            try:
                o = Mpo(c.model, op)
            except Exception as e:  # construction is C01's business
                self.run.count(f"rejected:mpo:{type(e).__name__}")
                return
            arg = o
            tag = "sym"
        else:
            terms = [c.sym_op() for _ in range(int(rng.integers(1, 4)))]
            if len(terms) == 1 and rng.random() < 0.5:
                arg = terms[0]
            else:
                arg = OpSum(terms)
            try:
                o = Mpo(c.model, arg)
            except Exception as e:
                self.run.count(f"rejected:mpo:{type(e).__name__}")
                return
            tag = "op-direct"
        Oarrs = L.arrays(o)
        want, scale = dense_expect(c, Oarrs)
        got = c.mp.expectation(arg)
        self.run.count(f"expectation:{tag}:{self.cls()}")
        r = _cmp_scalar(got, want, _tol(n, scale))
        if r:
            self.fail(f"expectation:{c.form}:{r}", dict(got=repr(got), want=repr(want), op=[L.ser_arr(a) for a in Oarrs]))
        if tag == "op-direct" and rng.random() < 0.5:
            # the same symbolic sum with its first term once more: another operator (successive calls on one state)
            t0 = arg if not isinstance(arg, OpSum) else arg[0]
            arg2 = OpSum(([arg] if not isinstance(arg, OpSum) else list(arg)) + [t0])
            try:
                o2 = Mpo(c.model, arg2)
            except Exception as e:
                self.run.count(f"rejected:mpo:{type(e).__name__}")
                o2 = None
            if o2 is not None:
                want2, scale2 = dense_expect(c, L.arrays(o2))
                got2 = c.mp.expectation(arg2)
                self.run.count("expectation:op-direct:repeated-term")
                r = _cmp_scalar(got2, want2, _tol(n, scale2))
                if r:
                    self.fail(f"expectation:{c.form}:repeated-term:{r}", dict(got=repr(got2), want=repr(want2), first_call=repr(got)))
        # bra != ket
        bra = c._state(bool(rng.random() < 0.5), other=True)
        X = bra.conj() if rng.random() < 0.7 else bra
        Xarrs = L.arrays(X)
        want, scale = dense_expect(c, Oarrs, Xarrs)
        got = c.mp.expectation(o, self_conj=X)
        self.run.count(f"transition:{self.cls()}:bra-{'complex' if X.is_complex else 'real'}")
        r = _cmp_scalar(got, want, _tol(n, scale))
        if r:
            self.fail(f"expectation:{c.form}:bra!=ket:{r}",
                      dict(got=repr(got), want=repr(want), op=[L.ser_arr(a) for a in Oarrs], self_conj=L.ser_mp(X)))

    # ---- expectations (batched) -----------------------------------------------------------
    def op_list(self):
        """operator lists with controlled sharing structure; returns (ops, tag)"""
        c, rng = self.c, self.c.rng
        n = c.n
        style = str(rng.choice(["pool", "pool", "pool-multi", "sym", "mixed", "onsite"]))
        ops = []
        if style in ("pool", "pool-multi", "mixed"):
            nprof = 1 if style == "pool" else 2
            profs = []
            for _ in range(nprof):
                bonds = [1] + [int(rng.integers(1, 4)) for _ in range(n - 1)] + [1]
                pool = []
                for i, p in enumerate(c.pdims):
                    k = int(rng.integers(1, 4))
                    pool.append([L.rnd(rng, (bonds[i], p, p, bonds[i + 1]), bool(rng.random() < 0.35)) for _ in range(k)])
                profs.append(pool)
            nops = int(rng.integers(1, 3 * n + 8))
            base = None
            for _ in range(nops):
                pool = profs[int(rng.integers(0, nprof))]
                mode = int(rng.integers(0, 5))
                if base is None or mode == 0:
                    seq = [int(rng.integers(0, len(pool[i]))) for i in range(n)]
                elif mode == 1:     # identical operator again
                    seq = list(base[1]) if base[0] is pool else [int(rng.integers(0, len(pool[i]))) for i in range(n)]
                elif mode == 2:     # shared prefix
                    k = int(rng.integers(0, n + 1))
                    seq = [(base[1][i] if (i < k and base[0] is pool) else int(rng.integers(0, len(pool[i])))) for i in range(n)]
                elif mode == 3:     # shared suffix
                    k = int(rng.integers(0, n + 1))
                    seq = [(base[1][i] if (i >= k and base[0] is pool) else int(rng.integers(0, len(pool[i])))) for i in range(n)]
                else:               # differs at exactly one site (if the pool allows)
                    seq = list(base[1]) if base[0] is pool else [int(rng.integers(0, len(pool[i]))) for i in range(n)]
                    k = int(rng.integers(0, n))
                    seq[k] = (seq[k] + 1) % len(pool[k])
                if base is None or rng.random() < 0.3:
                    base = (pool, seq)
                # fresh array objects each time: sharing must be found through hashes
                ops.append(Mpo.from_mp(c.model, [np.array(pool[i][seq[i]]) for i in range(n)]))
        if style in ("sym", "mixed", "onsite"):
            nops = int(rng.integers(1, 2 * n + 6))
            for _ in range(nops):
                try:
                    if style == "onsite":
                        op = c.sym_op(nfac=1)
                    else:
                        op = c.sym_op()
                    if rng.random() < 0.3:
                        op = OpSum([op, c.sym_op()])
                    o = Mpo(c.model, op)
                except Exception as e:
                    self.run.count(f"rejected:mpo:{type(e).__name__}")
                    continue
                ops.append(o if rng.random() < 0.7 else op)
        if style in ("sym", "mixed") and rng.random() < 0.5:
            # symbolic sums that differ only in how often a term is repeated (X, X+X, X+Y, X+Y+X), handed over as OpSum
            try:
                x_, y_ = c.sym_op(), c.sym_op()
                fam = [OpSum([x_]), OpSum([x_, x_]), OpSum([x_, y_]), OpSum([x_, y_, x_]), OpSum([y_, x_, x_, x_])]
                for o_ in fam:
                    Mpo(c.model, o_)
                ops.extend([fam[int(i)] for i in rng.permutation(len(fam))[: int(rng.integers(2, len(fam) + 1))]])
                self.run.count("expectations:repeated-term-family")
            except Exception as e:  # construction is C01's business
                self.run.count(f"rejected:mpo:{type(e).__name__}")
        if not ops:
            ops = [Mpo.identity(c.model)]
        # duplicates of whole operators (same objects and equal copies), then any order
        if rng.random() < 0.5:
            k = int(rng.integers(0, len(ops)))
            ops.append(ops[k])
        perm = rng.permutation(len(ops))
        ops = [ops[i] for i in perm]
        return ops, style

    def expectations(self):
        c, rng = self.c, self.c.rng
        n = c.n
        ops, style = self.op_list()
        mpos = []
        for o in ops:
            try:
                mpos.append(o if isinstance(o, Mpo) else Mpo(c.model, o))
            except Exception as e:
                raise GenError(f"mpo:{type(e).__name__}") from e
        use_bra = rng.random() < 0.35
        X = None
        Xarrs = None
        if use_bra:
            bra = c._state(bool(rng.random() < 0.5), other=True)
            X = bra.conj()
            Xarrs = L.arrays(X)
        want = []
        scale = 0.0
        for m in mpos:
            w, s = dense_expect(c, L.arrays(m), Xarrs)
            want.append(w)
            scale = max(scale, s)
        want = np.array(want)
        tol = _tol(n, scale)
        longer = len(ops) > n + 1
        self.run.count(f"expectations:{style}:{'longer-than-cache' if longer else 'short'}")
        self.run.count(f"expectations:{self.cls()}:{'bra' if use_bra else 'self'}")
        extra = dict(ops=[[L.ser_arr(a) for a in L.arrays(m)] for m in mpos], self_conj=L.ser_mp(X) if X is not None else None)
        try:
            fast = c.mp.expectations(ops, self_conj=X)
        except Exception as e:
            self.fail(f"expectations:{c.form}:fast-path-raises:{type(e).__name__}", dict(error=repr(e)), extra)
            return
        slow = c.mp.expectations(ops, self_conj=X, opt=False)
        r = _cmp_vec(slow, want, tol)
        if r:
            self.fail(f"expectations:{c.form}:slow-vs-dense:{r}", dict(got=L.ser_val(slow), want=L.ser_val(want), tol=tol, nrm2=c.nrm2), extra)
        r = _cmp_vec(fast, want, tol)
        if r:
            self.fail(f"expectations:{c.form}:fast-vs-dense:{r}", dict(got=L.ser_val(fast), want=L.ser_val(want)), extra)
        # fast == slow up to rounding (element-wise, complex)
        f = np.asarray(fast, dtype=complex)
        s = np.asarray(slow, dtype=complex)
        if f.shape != s.shape:
            self.fail(f"expectations:{c.form}:fast-vs-slow:shape", dict(fast=L.ser_val(fast), slow=L.ser_val(slow)), extra)
        else:
            # the two paths may drop |Im| <= 1e-8 independently (allclose over the batch vs isclose
            # per element): compare real parts tightly, imaginary parts tightly unless one was dropped
            if np.max(np.abs(f.real - s.real), initial=0.0) > tol:
                self.fail(f"expectations:{c.form}:fast-vs-slow:value", dict(fast=L.ser_val(fast), slow=L.ser_val(slow)), extra)
            else:
                dim = np.abs(f.imag - s.imag)
                lim = tol if (np.iscomplexobj(fast) == np.iscomplexobj(slow)) else 1e-8 + tol
                if np.max(dim, initial=0.0) > lim:
                    self.fail(f"expectations:{c.form}:fast-vs-slow:value", dict(fast=L.ser_val(fast), slow=L.ser_val(slow)), extra)

    # ---- occupations ----------------------------------------------------------------------
    def occupations(self):
        c = self.c
        n = c.n
        model = c.mp.model
        tol = _tol(n, c.sscale ** 2 * 4)
        # electronic
        e_want = []
        for i, d in enumerate(c.desc):
            if d[0] == "se":
                e_want.append((d[1], local_expect(c, i, np.diag([0.0, 1.0]))))
            elif d[0] == "me":
                for k, dof in enumerate(d[1]):
                    m = np.zeros((len(d[1]),) * 2)
                    m[k, k] = 1
                    e_want.append((dof, local_expect(c, i, m)))
            elif d[0] == "mev":
                for k, dof in enumerate(d[1]):
                    m = np.zeros((len(d[1]) + 1,) * 2)
                    m[k + 1, k + 1] = 1
                    e_want.append((dof, local_expect(c, i, m)))
        if e_want:
            order = list(model.e_dofs)
            dd = dict(e_want)
            want = np.array([dd[k] for k in order])
            for rep in range(2):   # second call goes through the per-model cache
                got = c.mp.e_occupations
                self.run.count(f"e_occupations:{self.cls()}")
                r = _cmp_vec(got, want, tol)
                if r:
                    self.fail(f"e_occupations:{c.form}:{r}" + (":cached" if rep else ""), dict(got=L.ser_val(got), want=L.ser_val(want)))
                    break
            # reuse of the operator cache after copy()
            cp = c.mp.copy()
            got = cp.e_occupations
            r = _cmp_vec(got, want, tol)
            if r:
                self.fail(f"e_occupations:{c.form}:after-copy:{r}", dict(got=L.ser_val(got), want=L.ser_val(want)))
        v_want = []
        for i, d in enumerate(c.desc):
            if d[0] in ("sho", "sho2"):
                v_want.append((d[1], local_expect(c, i, np.diag(np.arange(d[3], dtype=float)))))
        if v_want:
            order = list(model.v_dofs)
            dd = dict(v_want)
            want = np.array([dd[k] for k in order])
            tolv = _tol(n, c.sscale ** 2 * 4)
            for rep in range(2):
                got = c.mp.ph_occupations
                self.run.count(f"ph_occupations:{self.cls()}")
                r = _cmp_vec(got, want, tolv)
                if r:
                    self.fail(f"ph_occupations:{c.form}:{r}" + (":cached" if rep else ""), dict(got=L.ser_val(got), want=L.ser_val(want)))
                    break

    def edof_rdm(self):
        c = self.c
        n = c.n
        model = c.mp.model
        # rho_ij = <Psi| a_i^dag a_j |Psi> with a^dag a between two dofs (code's documented convention,
        # no fermionic sign).  Build the dense operator from elementary matrices.
        items = []
        for i, d in enumerate(c.desc):
            if d[0] == "se":
                items.append((d[1], i, "se", None))
            elif d[0] == "me":
                for k, dof in enumerate(d[1]):
                    items.append((dof, i, "me", k))
            elif d[0] == "mev":
                for k, dof in enumerate(d[1]):
                    items.append((dof, i, "mev", k + 1))
        if not items:
            return
        if any(t[2] == "me" for t in items) and any(t[2] != "me" for t in items):
            # a^dag / a alone do not exist on a BasisMultiElectron site: cross terms are undefined
            self.run.count("rejected:edof_rdm:me-mixed")
            return
        order = list(model.e_dofs)
        byname = {t[0]: t for t in items}
        ne = len(order)
        T = c.T
        want = np.zeros((ne, ne), dtype=complex)

        def apply_local(Tt, site, mat):
            ax = site if c.form == "mps" else 2 * site
            return np.moveaxis(np.tensordot(mat, Tt, axes=([1], [ax])), 0, ax)

        def creat(t):
            if t[2] == "se":
                m = np.zeros((2, 2)); m[1, 0] = 1; return m
            p = c.pdims[t[1]]
            m = np.zeros((p, p)); m[t[3], 0] = 1; return m

        for a, da in enumerate(order):
            for b, db in enumerate(order):
                ta, tb = byname[da], byname[db]
                if ta[1] == tb[1]:
                    p = c.pdims[ta[1]]
                    m = np.zeros((p, p))
                    if ta[2] == "se":
                        m[1, 1] = 1
                    else:
                        m[ta[3], tb[3]] = 1
                    want[a, b] = np.vdot(T, apply_local(T, ta[1], m))
                else:
                    if ta[2] == "me":
                        return
                    t2 = apply_local(T, tb[1], creat(tb).T)
                    t2 = apply_local(t2, ta[1], creat(ta))
                    want[a, b] = np.vdot(T, t2)
        try:
            got = c.mp.calc_edof_rdm()
        except Exception as e:
            self.run.count(f"rejected:edof_rdm:{type(e).__name__}")
            return
        self.run.count(f"calc_edof_rdm:{self.cls()}")
        tol = _tol(n, c.sscale ** 2 * 4)
        if got.shape != want.shape:
            self.fail(f"calc_edof_rdm:{c.form}:shape", dict(got=L.ser_val(got), want=L.ser_val(want)))
        elif np.max(np.abs(got - want)) > tol + 1e-8:
            # expectations() inside may drop |Im| <= 1e-8 for the whole batch
            self.fail(f"calc_edof_rdm:{c.form}:value", dict(got=L.ser_val(got), want=L.ser_val(want)))
        elif np.max(np.abs(got.real - want.real)) > tol:
            self.fail(f"calc_edof_rdm:{c.form}:value", dict(got=L.ser_val(got), want=L.ser_val(want)))

    # ---- reduced density matrices and entropies ------------------------------------------
    def conj_finding(self, name, bad_std, bad_tr, tol):
        """Mps.calc_1site_rdm / calc_2site_rdm are documented as rho = Tr_rest |Psi><Psi| but return
        rdm[p, q] = sum conj(Psi_p..) Psi_q.. = <q|rho|p>, i.e. the complex conjugate (transpose) of the
        matrix of rho, for complex states (TTNS.calc_1site_rdm / calc_2site_rdm, same docstring, return
        <p|rho|q>).  Reported under its own signature; every other mismatch gets ':value'."""
        if RDM_CONJ_IS_FINDING:
            self.fail(f"{name}:complex-state:conjugated", dict(err_vs_rho=bad_std, err_vs_rho_T=bad_tr, tol=tol))
        else:
            self.run.count(f"observed:{name}:complex-state:conjugated")

    def rdms(self):
        c, rng = self.c, self.c.rng
        n = c.n
        tol = _tol(n, c.sscale ** 2 * 4)
        mode = int(rng.integers(0, 3))
        if mode == 0:
            idx = None
            keys = list(range(n))
        elif mode == 1:
            k = int(rng.integers(0, n))
            idx = k
            keys = [k]
        else:
            keys = sorted(set(rng.integers(0, n, size=int(rng.integers(1, n + 1))).tolist()))
            idx = keys if rng.random() < 0.5 else tuple(keys)
        got = c.mp.calc_1site_rdm(idx)
        self.run.count(f"calc_1site_rdm:{self.cls()}")
        self.run.count(f"calc_1site_rdm:idx-{type(idx).__name__}")
        if sorted(got.keys()) != keys:
            self.fail(f"calc_1site_rdm:{c.form}:keys", dict(got=sorted(got.keys()), want=keys))
        else:
            bad_std = bad_tr = 0.0
            for k in keys:
                w = rdm1_dense(c, k)
                g = np.asarray(got[k])
                if g.shape != w.shape:
                    bad_std = bad_tr = np.inf
                    break
                bad_std = max(bad_std, float(np.max(np.abs(g - w))))
                bad_tr = max(bad_tr, float(np.max(np.abs(g - w.T))))
            if bad_std > tol:
                if bad_tr <= tol:
                    # complex state: the chain code returns <Psi|p><q|Psi> = conj of <p|rho|q>
                    self.conj_finding("calc_1site_rdm", bad_std, bad_tr, tol)
                else:
                    self.fail(f"calc_1site_rdm:{c.form}:value", dict(err_vs_rho=bad_std, err_vs_rho_T=bad_tr, tol=tol))
        if n >= 2:
            got2 = c.mp.calc_2site_rdm()
            self.run.count(f"calc_2site_rdm:{self.cls()}")
            keys2 = [(i, j) for i in range(n) for j in range(i + 1, n)]
            if sorted(got2.keys()) != keys2:
                self.fail(f"calc_2site_rdm:{c.form}:keys", dict(got=sorted(got2.keys()), want=keys2))
            else:
                bad_std = bad_tr = 0.0
                for (i, j) in keys2:
                    w = rdm2_dense(c, i, j)
                    g = np.asarray(got2[(i, j)])
                    if g.shape != w.shape:
                        bad_std = bad_tr = np.inf
                        break
                    bad_std = max(bad_std, float(np.max(np.abs(g - w))))
                    bad_tr = max(bad_tr, float(np.max(np.abs(g - w.T))))
                if bad_std > tol:
                    if bad_tr <= tol:
                        self.conj_finding("calc_2site_rdm", bad_std, bad_tr, tol)
                    else:
                        self.fail(f"calc_2site_rdm:{c.form}:value", dict(err_vs_rho=bad_std, err_vs_rho_T=bad_tr, tol=tol))

    def _ent(self, fn, which):
        """calc_vn_entropy asserts np.allclose(p[p<0], 0) (absolute 1e-8) BEFORE dividing by the trace: rounding-level
        negative eigenvalues of a rank-deficient RDM of a state with <psi|psi> >~ 1e7 trip it.  Own signature."""
        c = self.c
        try:
            return fn()
        except AssertionError as e:
            if c.nrm2 > 1e6:
                self.fail("calc_entropy:large-norm-state:AssertionError(negativity-check-before-normalisation)",
                          dict(which=which, norm2=c.nrm2))
            else:
                self.fail(f"calc_entropy:{which}:{c.form}:raises:AssertionError", dict(norm2=c.nrm2, error=repr(e)))
            return None

    def entropies(self):
        c = self.c
        n = c.n
        # entropies need *relative* accuracy of the spectrum: kappa = (product of tensor norms)^2 / <psi|psi>
        kappa = c.sscale ** 2 / c.nrm2
        if kappa > 1e6:
            self.run.count("skipped:entropy:ill-conditioned-representation")
            return
        etol = max(2e-9, 1e3 * L.EPS * kappa * 40)   # |d(p ln p)| <= |dp| (1 + |ln p|), p >= 1e-17
        s1w = {i: entropy_dm(rdm1_dense(c, i)) for i in range(n)}
        s1 = self._ent(lambda: c.mp.calc_entropy("1site"), "1site")
        if s1 is None:
            return
        self.run.count(f"entropy-1site:{self.cls()}")
        if sorted(s1.keys()) != list(range(n)) or max(abs(s1[i] - s1w[i]) for i in range(n)) > etol:
            self.fail(f"calc_entropy:1site:{c.form}", dict(got={str(k): float(v) for k, v in s1.items()}, want={str(k): v for k, v in s1w.items()}))
        if n >= 2:
            s2w = {(i, j): entropy_dm(rdm2_dense(c, i, j)) for i in range(n) for j in range(i + 1, n)}
            s2 = self._ent(lambda: c.mp.calc_entropy("2site"), "2site")
            if s2 is None:
                return
            self.run.count(f"entropy-2site:{self.cls()}")
            if sorted(s2.keys()) != sorted(s2w.keys()) or max(abs(s2[k] - s2w[k]) for k in s2w) > etol:
                self.fail(f"calc_entropy:2site:{c.form}", dict(got={str(k): float(v) for k, v in s2.items()}, want={str(k): v for k, v in s2w.items()}))
            mw = np.zeros((n, n))
            for (i, j), v in s2w.items():
                mw[i, j] = mw[j, i] = (s1w[i] + s1w[j] - v) / 2
            for name, fn in (("mutual", lambda: c.mp.calc_entropy("mutual")), ("mutual-direct", c.mp.calc_2site_mutual_entropy)):
                m = self._ent(fn, "mutual")
                if m is None:
                    return
                m = np.asarray(m)
                self.run.count(f"entropy-{name}:{self.cls()}")
                if m.shape != mw.shape or np.max(np.abs(m - mw)) > 2 * etol:
                    self.fail(f"calc_entropy:mutual:{c.form}", dict(got=L.ser_val(m), want=L.ser_val(mw)))
                    break
            # bond quantities need labels consistent with the tensors (they run svd_qn)
            sw = [bond_svals(c, k) for k in range(n - 1)]
            bw = np.array([vn_entropy(s ** 2) for s in sw])
            try:
                b1 = np.asarray(c.mp.calc_entropy("bond"))
                b2 = np.asarray(c.mp.calc_bond_entropy())
                sv = np.asarray(c.mp.calc_bond_singular_values())
            except Exception as e:
                self.fail(f"bond-entropy:{c.form}:raises:{type(e).__name__}", dict(error=repr(e)))
                return
            self.run.count(f"entropy-bond:{self.cls()}")
            if b1.shape != bw.shape or np.max(np.abs(b1 - bw)) > etol or np.max(np.abs(b2 - bw)) > etol:
                self.fail(f"calc_entropy:bond:{c.form}", dict(got=L.ser_val(b1), got2=L.ser_val(b2), want=L.ser_val(bw)))
            ok = sv.ndim == 2 and sv.shape[0] == n - 1
            if ok:
                stol = _tol(n, c.sscale)
                for k in range(n - 1):
                    g = np.sort(np.abs(sv[k]))[::-1]
                    w = np.sort(sw[k])[::-1]
                    m = max(len(g), len(w))
                    g = np.pad(g, (0, m - len(g)))
                    w = np.pad(w, (0, m - len(w)))
                    if np.max(np.abs(g - w)) > stol:
                        ok = False
            if not ok:
                self.fail(f"calc_bond_singular_values:{c.form}", dict(got=L.ser_val(sv), want=[s.tolist() for s in sw]))


# ------------------------------------------------------------------------------------ driver
def search(run, rng, quick):
    SEEN.clear()
    MAXR[0] = 0.0
    t0 = time.time()
    budget = 42.0 if quick else 480.0
    ncase = 0
    distinct = set()
    while time.time() - t0 < budget:
        try:
            case = Case(rng, quick)
        except (RuntimeError, GenError) as e:
            run.count("rejected:state-generation")
            continue
        ncase += 1
        run.count(f"model:{case.kind}:{case.form}")
        run.count(f"nsite={case.n}")
        run.count(f"maxbond={max(case.mp.bond_dims)}")
        for h in case.hist:
            run.count("gauge:" + h.split("(")[0])
        ck = Checker(run, case, ncase)
        if case.nrm2 == 0 or not np.isfinite(case.nrm2):
            run.count("rejected:zero-state")
            continue
        steps = [ck.expectation, ck.expectations, ck.expectations, ck.occupations, ck.edof_rdm, ck.rdms, ck.entropies]
        for st in steps:
            try:
                st()
            except GenError as e:
                run.count(f"rejected:generator:{e}")
            except Exception as e:
                # the property promises a value for every input generated here
                ck.fail(f"{st.__name__}:{case.form}:raises:{type(e).__name__}", dict(error=repr(e)[:300]))
        bd = tuple(case.mp.bond_dims)
        if max(bd) > 1 or case.n == 1:
            distinct.add((tuple(map(str, case.desc)), case.form, case.cplx, bd, tuple(case.hist)))
        run.sample(dict(kind=case.kind, form=case.form, complex=case.cplx, basis=case.desc, bond_dims=list(bd),
                        history=case.hist, norm2=case.nrm2))
        if ck.nfail and len(run.violations) > 40:
            break
    run.cov["evaluations"] = run.cov.get("evaluations", 0) + ncase
    run.cov["distinct_nontrivial"] = len(distinct)
    run.cov["max_error_over_tolerance"] = MAXR[0]
    run.cov["rule"] = ("distinct (basis description, Mps/MpDm, dtype, bond dimensions, gauge history) with some bond "
                       "dimension > 1 (or a one-site chain); each case runs every observable family")
