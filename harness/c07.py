"""C07 — observables equal their dense definitions; batched fast path = one-by-one path.
L1: Lean: the environment cache is prefix closed in construction order for every operator list (no
    KeyError), every cached environment is the site-by-site contraction of its key, what is handed
    out is the contraction of a prefix of the operator no longer than allowed (no overlap of the
    left and right pieces).  Contraction = dense value is `c03_dot` of the chain library.
L2: exact replay of the cache DECISIONS of the real `expectations`: which sequences are cached, in
    which order (`_construct_freq_environ`, both domains), and which prefix length is handed out
    (`_get_freq_environ`), on generated operator lists with shared prefixes / suffixes / duplicates.
L3: dense oracle for every observable (search_c07)."""
import numpy as np

import common
from common import Run, Infra


def main():
    run = Run("C07", level="proof")
    quick = run.tier != "thorough"
    rng = np.random.default_rng(run.seed)
    l1 = run.l1(["RenoVerif/Props/C07.lean", "RenoVerif/Props/C07Rdm.lean"])
    if not l1["build_ok"]:
        raise Infra("hand-written Lean library failed to build/audit: " + str(l1.get("bad")) + l1.get("log", "")[-800:])
    from renormalizer.model import Model, Op
    from renormalizer.model import basis as ba
    from renormalizer.mps import Mps, Mpo
    import renormalizer.mps.mps as mpsmod

    rec = []
    orig_c = mpsmod._construct_freq_environ
    orig_g = mpsmod._get_freq_environ

    def wrap_c(mpos_hash, hash_to_obj, mps, domain, mps_conj):
        r = orig_c(mpos_hash, hash_to_obj, mps, domain, mps_conj)
        rec.append(("construct", domain, [list(h) for h in mpos_hash], len(mps), [list(k) for k in r.keys()]))
        return r

    def wrap_g(environ_dict, mpo, domain, max_length):
        e, i = orig_g(environ_dict, mpo, domain, max_length)
        rec.append(("get", domain, [hash(m) for m in mpo], max_length, [list(k) for k in environ_dict.keys()], i))
        return e, i
    mpsmod._construct_freq_environ = wrap_c
    mpsmod._get_freq_environ = wrap_g
    ncase = 25 if quick else 250
    reqs, meta = [], []
    try:
        for ic in range(ncase):
            nsite = int(rng.integers(2, 6))
            basis = [ba.BasisHalfSpin(i) for i in range(nsite)]
            model = Model(basis, [])
            mps = Mps.random(model, 0, int(rng.integers(1, 4)), 1.0)
            if rng.random() < 0.5:
                mps = mps.to_complex()
            pool = []
            for _ in range(int(rng.integers(2, 9))):
                k = int(rng.integers(1, min(3, nsite) + 1))
                sites = sorted(rng.choice(nsite, size=k, replace=False).tolist())
                syms = [str(rng.choice(["X", "Z", "Y"])) for _ in sites]
                f = (1j if rng.random() < 0.5 else 1.0 + 0j) if "Y" in syms else 1.0
                pool.append(Op(" ".join(syms), sites, f))
            ops = []
            for _ in range(int(rng.integers(2, 10))):
                ops.append(pool[int(rng.integers(len(pool)))])
            mpos = [Mpo(model, o) for o in ops]
            del rec[:]
            case = dict(nsite=nsite, ops=[(o.symbol, list(o.dofs), str(o.factor)) for o in ops], bond_dims=[int(x) for x in mps.bond_dims],
                        complex_state=bool(np.iscomplexobj(mps[0].array)))
            slow = np.array([mps.expectation(m) for m in mpos])
            try:
                fast = np.asarray(mps.expectations(mpos))
            except Exception as e:  # noqa
                run.violation(f"expectations:fast-path-raises:{type(e).__name__}", dict(case=case, error=repr(e)[:300], slow=[str(x) for x in slow],
                                                                                       what="the batched fast path raises where the one-by-one path returns values"))
                continue
            if fast.shape != slow.shape or np.max(np.abs(fast - slow)) > 1e-10 * max(1.0, np.max(np.abs(slow))):
                run.violation("expectations:fast-differs-from-slow", dict(case=case, fast=[str(x) for x in fast], slow=[str(x) for x in slow]))
            run.count(f"nops={len(ops)}")
            for r in rec:
                # canonical small ints for hashes, first-occurrence order over this record
                ids = {}

                def hid(h):
                    return ids.setdefault(h, len(ids) + 1)
                if r[0] == "construct":
                    _, domain, seqs, n, keys = r
                    seqs = [[hid(h) for h in (s if domain == "L" else list(reversed(s)))] for s in seqs]
                    keys = [[hid(h) for h in k] for k in keys if len(k)]
                    reqs.append(f"select {n} " + "|".join(",".join(map(str, s)) for s in seqs))
                    meta.append(("select", dict(case, domain=domain), "|".join(",".join(map(str, k)) for k in keys) if keys else "-"))
                else:
                    _, domain, mpo_h, max_length, keys, i = r
                    seq = mpo_h if domain == "L" else list(reversed(mpo_h))
                    seq = [hid(h) for h in seq]
                    keys = [[hid(h) for h in k] for k in keys if len(k)]
                    ml = "inf" if max_length == np.inf else str(int(max_length))
                    length = (i + 1) if domain == "L" else (len(mpo_h) - i)
                    reqs.append(f"getfreq {ml} {','.join(map(str, seq))} " + ("|".join(",".join(map(str, k)) for k in keys) if keys else "-"))
                    meta.append(("getfreq", dict(case, domain=domain), str(length)))
    finally:
        mpsmod._construct_freq_environ = orig_c
        mpsmod._get_freq_environ = orig_g
    replies = common.run_driver("RenoVerif/Driver/C07.lean", reqs)
    distinct = set()
    counts = dict(select=0, getfreq=0)
    for (kind, case, impl), req, rep in zip(meta, reqs, replies):
        counts[kind] += 1
        distinct.add(req)
        run.sample(dict(kind=kind, request=req[:300], model=rep, impl=impl), limit=4)
        if rep != impl:
            run.violation(f"corr:{kind}", dict(correspondence=f"RenoVerif.EnvCache.{'selectKeys' if kind == 'select' else 'getFreq'} vs renormalizer.mps.mps",
                                               case=case, request=req, model=rep, impl=impl), no_input=True)
    run.cov.update(programs=len(reqs), disagreements_checked=len(reqs), decisions=counts, evaluations=len(reqs),
                   distinct_nontrivial=len(distinct),
                   rule="random spin chains (2-5 sites) x operator lists drawn with replacement from a small pool of 1-3 body operators "
                        "(shared prefixes/suffixes, identical operators, complex operators); one request per recorded cache decision; distinct = distinct request")
    try:
        import search_c07
    except ImportError:
        search_c07 = None
        run.cov["search_module"] = "absent"
    if search_c07 is not None:
        ev0, dn0 = run.cov["evaluations"], run.cov["distinct_nontrivial"]
        search_c07.search(run, rng, quick)
        if run.cov.get("evaluations") != ev0:
            run.cov["search_evaluations"] = run.cov["evaluations"]
            run.cov["evaluations"] = ev0 + run.cov["search_evaluations"]
            run.cov["distinct_nontrivial"] = dn0 + run.cov.get("distinct_nontrivial", 0)
    run.assumptions += ["Matrix.__hash__ is injective on the operators at hand (the code raises on a detected collision)",
                        "entropies are float formulas applied to reduced density matrices / singular values (partial)"]
    return run.finish()


if __name__ == "__main__":
    common.main_wrapper(main)
