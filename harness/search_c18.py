"""C18 failing-input search: numerical kernels.

Part A  renormalizer.lib.krylov.expm_krylov(Afunc, dt, v, block_size) against scipy.linalg.expm.
  Inputs: Hermitian A (real symmetric / complex) of size 1..60 with structured spectra (random,
  degenerate, rank deficient, diagonal, clustered, two clusters with a gap, zero, multiple of 1),
  dt = +x, -x, +ix, -ix with x*||A|| log-uniform in [0.01, 10], block_size 2..50 (buffer growth),
  start vectors: dense random, inside a 1..3-dimensional invariant subspace (breakdown exit),
  invariant + 1e-14..1e-3 noise (near breakdown), unit vectors, moderately scaled (1e-3..1e3),
  wide dynamic range of spectral weights, the full-space exit (n <= 8).
  Oracle: || got - expm(dt A) v || <= TOL * max(||v||, ||expm(dt A) v||); the kernel states no
  tolerance of its own, its stopping rule is allclose(rtol=1e-5, atol=1e-8) between Krylov iterates
  j-2 and j, so TOL = 3e-5 (three times "its" tolerance; observed on 2e5 inputs: <= 2e-6).  For the
  wide-dynamic-range family the stopping rule is known to fire early with true errors up to 1e-4
  (it is a heuristic, not a bound): TOL = 1e-3 there, documented in the evidence counters.
  The input vector must not be modified.
  Two families hit genuine defects of the pinned kernel and have their own signatures:
    krylov:tiny-norm-start:premature-exit   ||v|| <= 1e-7: atol=1e-8 of the stopping rule is not
        scaled with ||v||, so every such vector "converges" after 7 Lanczos vectors (error ~ 1).
    krylov:real-start-complex-operator:dtype   real v, complex Hermitian A: the Krylov basis is
        allocated with v.dtype and silently drops the imaginary parts (error ~ 0.3).

Part B  renormalizer.mps.svd_qn: svd_qn (SVD full / economic, with and without the unbalanced-block
  optimisation; QR with system L/R, full / economic) and eigh_qn (system L/R).
  Inputs: label arrays with 1 or 2 components and 1..2 axes per side, labels from a small integer
  range (negative allowed) so that sectors are empty / one-sided / unbalanced (m >= 3n) / single
  row; coefficient arrays real or complex, either supported on the allowed positions only or dense
  everywhere (then only the allowed part must be restored), rank-deficient and zero blocks.
  Oracle (dense, numpy): M = [ql_i + qr_j == qntot]; T = coef * M.
    orthonormal columns (64 eps n), product == T exactly (256 eps n ||T||), labels: every column is
    supported on rows/columns carrying its label and qnl_k + qnr_k == qntot, economic SVD globally
    sorted and equal to the singular values of T, full SVD: padded singular values are zero and the
    leading K = sum_sectors min(m, n) columns pair up; without the optimisation the full factor is a
    complete basis of the paired sectors; ValueError("Invalid quantum number") iff no sector pairs.
"""
import time

import numpy as np
import scipy.linalg as sla

import logging
logging.getLogger("renormalizer").setLevel(logging.ERROR)

from renormalizer.lib import expm_krylov  # noqa: E402
from renormalizer.mps import svd_qn as SQ  # noqa: E402

EPS = np.finfo(float).eps
TOL_K = 3e-5
TOL_K_WIDE = 1e-3


# ====================================================================================== Krylov
def _herm(rng, n, cplx, spec):
    if cplx:
        g = rng.normal(size=(n, n)) + 1j * rng.normal(size=(n, n))
    else:
        g = rng.normal(size=(n, n))
    q, _ = np.linalg.qr(g)
    a = (q * spec) @ q.conj().T
    return (a + a.conj().T) / 2, q


def _spectrum(rng, n, kind):
    if kind == "rand":
        return rng.normal(size=n)
    if kind == "degen":
        return rng.choice([-1.0, 0.0, 0.5, 2.0], size=n)
    if kind == "rank":
        return np.where(rng.random(n) < 0.3, rng.normal(size=n), 0.0)
    if kind == "clustered":
        return np.round(rng.normal(size=n), 1) + 1e-6 * rng.normal(size=n)
    if kind == "gap":
        return np.concatenate([-1 + 1e-3 * rng.normal(size=n // 2), 1 + 1e-3 * rng.normal(size=n - n // 2)])
    if kind == "zero":
        return np.zeros(n)
    if kind == "scalar":
        return np.full(n, float(np.round(rng.normal(), 2)) or 1.0)
    raise ValueError(kind)


def _cjson(x):
    x = np.asarray(x)
    return dict(re=np.real(x).tolist(), im=(np.imag(x).tolist() if np.iscomplexobj(x) else None))


def krylov_case(run, rng, stats):
    n = int(rng.choice([1, 2, 3, 4, 5, 8, int(rng.integers(6, 61))]))
    kind = str(rng.choice(["rand", "rand", "degen", "rank", "diag", "clustered", "gap", "zero", "scalar"]))
    cplx = bool(rng.random() < 0.5)
    if kind == "diag":
        spec = rng.normal(size=n)
        a = np.diag(spec).astype(complex if cplx else float)
        q = np.eye(n)
    else:
        spec = _spectrum(rng, n, kind)
        a, q = _herm(rng, n, cplx, spec)
    anorm = float(np.linalg.norm(a, 2)) if n else 0.0
    x = float(np.exp(rng.uniform(np.log(0.01), np.log(10.0))))
    phase = str(rng.choice(["+", "-", "+i", "-i"]))
    unit = {"+": 1.0, "-": -1.0, "+i": 1j, "-i": -1j}[phase]
    dt = unit * (x / anorm if anorm > 1e-12 else x)
    # dt handed over in different Python/NumPy types
    if not np.iscomplex(dt):
        dt = [float(np.real(dt)), np.float64(np.real(dt)), complex(np.real(dt), 0.0)][int(rng.integers(3))]
    else:
        dt = [complex(dt), np.complex128(dt)][int(rng.integers(2))]
    vk = str(rng.choice(["dense", "invariant", "near-invariant", "unit", "scaled", "wide", "tiny", "real-v-complex-A"],
                        p=[0.34, 0.14, 0.14, 0.1, 0.1, 0.1, 0.04, 0.04]))
    w, u = np.linalg.eigh(a)
    vc = cplx or bool(rng.random() < 0.5)
    if vk == "real-v-complex-A" and not (cplx and n >= 2 and kind not in ("zero", "scalar", "diag")):
        vk = "dense"
    if vk == "tiny" and n < 10:
        vk = "dense"

    def rnd(m):
        return rng.normal(size=m) + (1j * rng.normal(size=m) if vc else 0)
    if vk in ("dense", "tiny"):
        v = rnd(n)
    elif vk == "real-v-complex-A":
        v = rng.normal(size=n)
    elif vk in ("invariant", "near-invariant"):
        k = int(rng.integers(1, min(n, 3) + 1))
        idx = rng.choice(n, size=k, replace=False)
        v = u[:, idx] @ rnd(k)
        if not vc:
            v = np.real(v)
        if vk == "near-invariant":
            v = v + 10.0 ** rng.uniform(-14, -3) * rnd(n)
    elif vk == "unit":
        v = np.zeros(n, dtype=complex if vc else float)
        v[int(rng.integers(n))] = 1.0
    elif vk == "scaled":
        v = rnd(n) * 10.0 ** rng.uniform(-3, 3)
    else:  # wide dynamic range of the spectral weights
        wts = 10.0 ** rng.uniform(-12, 0, size=n) * rng.choice([-1, 1], size=n)
        v = u @ wts
        if not vc:
            v = np.real(v)
    if vk == "tiny":
        v = v / np.linalg.norm(v) * 10.0 ** rng.uniform(-14, -7)
        dt = unit * float(rng.uniform(3, 10)) / max(anorm, 1e-12)
    if vk == "real-v-complex-A":
        dt = unit * float(rng.uniform(0.5, 5)) / max(anorm, 1e-12)
    if np.linalg.norm(v) == 0:
        run.count("krylov:rejected:zero-vector")
        return
    if vk != "real-v-complex-A" and np.iscomplexobj(a) and not np.iscomplexobj(v):
        v = v.astype(complex)      # documented use: the start vector can hold the result's type
    bs = int(rng.choice([2, 3, 4, 5, 7, 10, 50, int(rng.integers(2, 51))]))
    v0 = v.copy()
    exact = sla.expm(complex(dt) * a if np.iscomplex(dt) else float(np.real(dt)) * a) @ v
    stats["n"] += 1
    run.count(f"krylov:{vk}:{kind}:{'complex' if cplx else 'real'}:{phase}")
    rep = dict(kernel="expm_krylov", n=n, spectrum_kind=kind, A=_cjson(a), dt=[float(np.real(dt)), float(np.imag(dt))],
               v=_cjson(v0), block_size=bs, start_kind=vk)
    try:
        got, j = expm_krylov(lambda y: a @ y, dt, v, bs)
    except Exception as e:
        run.violation(f"krylov:{vk}:raises:{type(e).__name__}", dict(rep, error=repr(e)[:300]))
        return
    got = np.asarray(got)
    if not np.array_equal(v, v0):
        run.violation("krylov:input-modified", rep)
    with np.errstate(all="ignore"):     # (the library switches NumPy to raise on overflow/invalid)
        scale = max(np.linalg.norm(v0), np.linalg.norm(exact))
        err = float(np.linalg.norm(got - exact) / scale) if np.all(np.isfinite(got)) else float("inf")
    stats["exit:" + ("full" if j == n else "early")] = stats.get("exit:" + ("full" if j == n else "early"), 0) + 1
    if j > bs:
        run.count("krylov:buffer-grown")
    if not (1 <= j <= n):
        run.violation("krylov:iteration-count-out-of-range", dict(rep, j=int(j)))
    tol = TOL_K_WIDE if vk == "wide" else TOL_K
    stats["max:" + vk] = max(stats.get("max:" + vk, 0.0), err)
    if not np.isfinite(err) or err > tol:
        info = dict(rep, rel_err=err, tol=tol, lanczos_vectors=int(j), normA_dt=float(anorm * abs(dt)))
        if vk == "tiny":
            run.violation("krylov:tiny-norm-start:premature-exit", info)
        elif vk == "real-v-complex-A":
            run.violation("krylov:real-start-complex-operator:dtype", info)
        else:
            run.violation(f"krylov:{vk}:{'imag' if 'i' in phase else 'real'}-dt:inaccurate", info)
    stats["distinct"].add(("krylov", vk, kind, cplx, phase, min(n, 9), bs if bs < 8 else 8))


# ====================================================================================== svd_qn
def _labels(rng, shape, qs, lo, hi):
    return rng.integers(lo, hi + 1, size=tuple(shape) + (qs,))


def _support_ok(mat, labels_rows, col_labels, tol):
    """every column k of mat vanishes on rows whose label differs from col_labels[k]"""
    col_labels = np.asarray(col_labels).reshape(mat.shape[1], -1)
    same = np.all(labels_rows[:, None, :] == col_labels[None, :, :], axis=-1)
    bad = np.abs(mat)[~same]
    return (bad.max() if bad.size else 0.0) <= tol


def svd_case(run, rng, stats):
    with np.errstate(all="ignore"):
        return _svd_case(run, rng, stats)


def _svd_case(run, rng, stats):
    qs = int(rng.choice([1, 1, 2]))
    lshape = [int(rng.integers(1, 7))] if rng.random() < 0.5 else [int(rng.integers(1, 4)), int(rng.integers(1, 4))]
    rshape = [int(rng.integers(1, 7))] if rng.random() < 0.5 else [int(rng.integers(1, 4)), int(rng.integers(1, 4))]
    if rng.random() < 0.25:     # strongly unbalanced: triggers the add_orthonormal_basis branch
        if rng.random() < 0.5:
            lshape = [int(rng.integers(6, 13))]
            rshape = [int(rng.integers(1, 3))]
        else:
            rshape = [int(rng.integers(6, 13))]
            lshape = [int(rng.integers(1, 3))]
    span = int(rng.choice([0, 1, 1, 2]))
    lo = int(rng.choice([-1, 0, 0]))
    ql = _labels(rng, lshape, qs, lo, lo + span)
    qr = _labels(rng, rshape, qs, lo, lo + span)
    nl, nr = int(np.prod(lshape)), int(np.prod(rshape))
    fl, fr = ql.reshape(nl, qs), qr.reshape(nr, qs)
    # total label: mostly the sum of a random pair (so that something pairs), sometimes arbitrary
    if rng.random() < 0.85:
        qntot = fl[int(rng.integers(nl))] + fr[int(rng.integers(nr))]
    else:
        qntot = rng.integers(2 * lo - 1, 2 * (lo + span) + 2, size=qs)
    qntot = np.asarray(qntot)
    mask = np.all(fl[:, None, :] + fr[None, :, :] == qntot[None, None, :], axis=-1)
    cplx = bool(rng.random() < 0.4)
    coef = rng.normal(size=(nl, nr)) + (1j * rng.normal(size=(nl, nr)) if cplx else 0)
    ck = str(rng.choice(["allowed-only", "dense", "rank-deficient", "zero-block", "all-zero"]))
    if ck == "rank-deficient" and nl > 1:
        coef[1:, :] = coef[:1, :] * rng.normal(size=(nl - 1, 1))
    elif ck == "zero-block":
        r0 = fl[int(rng.integers(nl))]
        coef[np.all(fl == r0, axis=1), :] = 0
    elif ck == "all-zero":
        coef = coef * 0
    target = coef * mask
    if ck != "dense":
        coef = target.copy()
    mode = str(rng.choice(["svd-full", "svd-full-noopt", "svd-econ", "qr-L-econ", "qr-R-econ", "qr-L-full", "qr-R-full", "eigh-L", "eigh-R"]))
    coef_in = coef.reshape(lshape + rshape)
    coef_keep = coef_in.copy()
    # paired sectors
    lsec = {tuple(x) for x in fl}
    pairs = [s for s in lsec if np.any(np.all(fr == qntot - np.array(s), axis=1))]
    prow = np.array([tuple(x) in pairs for x in fl])
    rsecs = {tuple(qntot - np.array(s)) for s in pairs}
    pcol = np.array([tuple(x) in rsecs for x in fr])
    kk = sum(min(int(np.sum(np.all(fl == np.array(s), axis=1))), int(np.sum(np.all(fr == qntot - np.array(s), axis=1)))) for s in pairs)
    stats["n"] += 1
    run.count(f"svdqn:{mode}:{'complex' if cplx else 'real'}:qn{qs}:{ck}")
    run.count(f"svdqn:sectors:paired={min(len(pairs), 4)}:one-sided={'yes' if len(pairs) < len(lsec) or (~pcol).any() else 'no'}")
    rep = dict(kernel=mode, coef=_cjson(coef_in), qnbigl=ql.tolist(), qnbigr=qr.tolist(), qntot=qntot.tolist(), coef_kind=ck)
    size = max(nl, nr)
    tnorm = max(1.0, float(np.linalg.norm(target)))
    t_orth = 64 * EPS * size
    t_rec = 256 * EPS * size * tnorm
    seed = int(rng.integers(1 << 30))
    np.random.seed(seed)      # add_orthonormal_basis draws from the global generator
    rep["np_seed"] = seed
    stats["distinct"].add((mode, qs, cplx, ck, min(len(pairs), 3), len(lshape), len(rshape), nl > 3 * nr or nr > 3 * nl))

    def fail(what, **kw):
        run.violation(f"svdqn:{mode}:{what}", dict(rep, **kw))

    try:
        if mode.startswith("svd"):
            full = mode != "svd-econ"
            out = SQ.svd_qn(coef_in, ql, qr, qntot, full_matrices=full, opt_full_matrices=(mode == "svd-full"))
            u, su, qnl, v, sv, qnr = out
        elif mode.startswith("qr"):
            system = mode[3]
            full = mode.endswith("full")
            u, qnl, v, qnr = SQ.svd_qn(coef_in, ql, qr, qntot, QR=True, system=system, full_matrices=full)
        else:
            system = mode[-1]
            if system == "L":
                dm_full = coef @ coef.conj().T
                labs, comp = fl, fr
                psel = prow
            else:
                dm_full = coef.T @ coef.conj()
                labs, comp = fr, fl
                psel = pcol
            same = np.all(labs[:, None, :] == labs[None, :, :], axis=-1) & psel[:, None] & psel[None, :]
            dm_t = dm_full * same
            dm_in = dm_full.copy()
            u, s, qn_new = SQ.eigh_qn(dm_in, ql, qr, qntot, system)
    except ValueError as e:
        if "Invalid quantum number" in str(e) and not pairs and not mode.startswith("eigh"):
            run.count("svdqn:invalid-qn-raised-as-documented")
            return
        if mode.startswith("eigh") and not pairs:
            run.count("svdqn:eigh-no-sector:rejected")   # np.concatenate of nothing: no promise made
            return
        fail(f"raises:{type(e).__name__}", error=repr(e)[:300], paired_sectors=len(pairs))
        return
    except Exception as e:
        fail(f"raises:{type(e).__name__}", error=repr(e)[:300], paired_sectors=len(pairs))
        return
    if not pairs:
        fail("no-sector-pairs-but-no-error")
        return
    if not np.array_equal(coef_in, coef_keep):
        fail("input-modified")

    if mode.startswith("eigh"):
        u = np.asarray(u)
        s = np.asarray(s)
        if np.abs(u.conj().T @ u - np.eye(u.shape[1])).max() > t_orth:
            fail("not-orthonormal", dev=float(np.abs(u.conj().T @ u - np.eye(u.shape[1])).max()))
        recon = (u * s ** 2) @ u.conj().T
        dn = max(1.0, float(np.linalg.norm(dm_t)))
        if np.abs(recon - dm_t).max() > 1024 * EPS * size * dn:
            fail("reconstruction", dev=float(np.abs(recon - dm_t).max()))
        if len(qn_new) != u.shape[1] or not _support_ok(u, labs, qn_new, t_rec):
            fail("labels")
        if u.shape[1] != int(psel.sum()):
            fail("incomplete-basis", columns=int(u.shape[1]), expected=int(psel.sum()))
        return

    u, v = np.asarray(u), np.asarray(v)
    qnl_a = np.asarray(qnl).reshape(-1, qs) if len(qnl) else np.zeros((0, qs), dtype=int)
    qnr_a = np.asarray(qnr).reshape(-1, qs) if len(qnr) else np.zeros((0, qs), dtype=int)
    if qnl_a.shape[0] != u.shape[1] or qnr_a.shape[0] != v.shape[1] or u.shape[0] != nl or v.shape[0] != nr:
        fail("shapes", u=list(u.shape), v=list(v.shape), nqnl=int(qnl_a.shape[0]), nqnr=int(qnr_a.shape[0]))
        return
    lab_ok = _support_ok(u, fl, qnl_a, t_rec) and _support_ok(v, fr, qnr_a, t_rec)

    if mode.startswith("qr"):
        if u.shape[1] != v.shape[1]:
            fail("shapes", u=list(u.shape), v=list(v.shape))
            return
        if np.abs(u @ v.T - target).max() > t_rec:
            fail("reconstruction", dev=float(np.abs(u @ v.T - target).max()))
        orth = u if system == "L" else v
        if np.abs(orth.conj().T @ orth - np.eye(orth.shape[1])).max() > t_orth:
            fail("not-orthonormal", dev=float(np.abs(orth.conj().T @ orth - np.eye(orth.shape[1])).max()))
        if not lab_ok or not np.array_equal(qnl_a + qnr_a, np.broadcast_to(qntot, qnl_a.shape)):
            fail("labels")
        expect = kk if not full else int((prow if system == "L" else pcol).sum())
        if u.shape[1] != expect:
            fail("column-count", columns=int(u.shape[1]), expected=expect)
        return

    su, sv = np.asarray(su), np.asarray(sv)
    if len(su) != u.shape[1] or len(sv) != v.shape[1]:
        fail("shapes", nsu=len(su), nsv=len(sv))
        return
    for nm, mtx in (("u", u), ("v", v)):
        dev = float(np.abs(mtx.conj().T @ mtx - np.eye(mtx.shape[1])).max()) if mtx.shape[1] else 0.0
        if dev > t_orth:
            fail("not-orthonormal", which=nm, dev=dev)
    if not lab_ok:
        fail("labels")
    if np.any(su < 0) or np.any(sv < 0):
        fail("negative-singular-value")
    sref = np.linalg.svd(target, compute_uv=False)
    sref = np.concatenate([sref, np.zeros(max(0, kk - len(sref)))])
    if mode == "svd-econ":
        if u.shape[1] != kk or v.shape[1] != kk:
            fail("column-count", columns=int(u.shape[1]), expected=kk)
            return
        if np.any(np.diff(su) > 0):
            fail("not-sorted")
        if not np.array_equal(su, sv):
            fail("su-differs-from-sv")
        if np.abs(su - sref[:kk]).max() > t_rec or (len(sref) > kk and sref[kk:].max() > t_rec):
            fail("singular-values", dev=float(np.abs(su - sref[:kk]).max()))
        if np.abs((u * su) @ v.T - target).max() > t_rec:
            fail("reconstruction", dev=float(np.abs((u * su) @ v.T - target).max()))
        if not np.array_equal(qnl_a + qnr_a, np.broadcast_to(qntot, qnl_a.shape)):
            fail("labels-do-not-add-up")
        return
    # full matrices: the leading kk columns pair up, the padding carries zero singular values
    if u.shape[1] < kk or v.shape[1] < kk:
        fail("column-count", columns=[int(u.shape[1]), int(v.shape[1])], expected_at_least=kk)
        return
    if np.abs((u[:, :kk] * su[:kk]) @ v[:, :kk].T - target).max() > t_rec:
        fail("reconstruction", dev=float(np.abs((u[:, :kk] * su[:kk]) @ v[:, :kk].T - target).max()))
    if not np.array_equal(su[:kk], sv[:kk]) or np.any(su[kk:] != 0) or np.any(sv[kk:] != 0):
        fail("singular-value-padding")
    if np.abs(np.sort(su[:kk])[::-1] - sref[:kk]).max() > t_rec:
        fail("singular-values", dev=float(np.abs(np.sort(su[:kk])[::-1] - sref[:kk]).max()))
    if not np.array_equal(qnl_a[:kk] + qnr_a[:kk], np.broadcast_to(qntot, qnl_a[:kk].shape)):
        fail("labels-do-not-add-up")
    if mode == "svd-full-noopt":
        if u.shape[1] != int(prow.sum()) or v.shape[1] != int(pcol.sum()):
            fail("incomplete-basis", columns=[int(u.shape[1]), int(v.shape[1])], expected=[int(prow.sum()), int(pcol.sum())])
    else:
        if u.shape[1] > int(prow.sum()) or v.shape[1] > int(pcol.sum()):
            fail("too-many-columns", columns=[int(u.shape[1]), int(v.shape[1])], at_most=[int(prow.sum()), int(pcol.sum())])


def search(run, rng, quick):
    t0 = time.time()
    stats = dict(n=0, distinct=set())
    nk = 20000 if quick else 250000
    ns = 30000 if quick else 400000
    budget = 50.0 if quick else 540.0
    for i in range(nk):
        krylov_case(run, rng, stats)
        if i % 100 == 0 and time.time() - t0 > budget * 0.5:
            run.count("krylov:budget-cutoff")
            break
    for i in range(ns):
        svd_case(run, rng, stats)
        if i % 200 == 0 and time.time() - t0 > budget:
            run.count("svdqn:budget-cutoff")
            break
    run.cov["evaluations"] = run.cov.get("evaluations", 0) + stats["n"]
    run.cov["distinct_nontrivial"] = len(stats["distinct"])
    run.cov["rule"] = ("distinct = different (kernel/mode, start-vector or coefficient kind, spectrum kind, dtype, dt phase, "
                       "size class, block size class | label components, #paired sectors, axes per side, unbalanced flag)")
    run.cov["krylov_max_rel_err_by_start_kind"] = {k[4:]: float(v) for k, v in stats.items() if k.startswith("max:")}
    run.cov["krylov_exits"] = {k[5:]: int(v) for k, v in stats.items() if k.startswith("exit:")}
    run.sample(dict(kernel="expm_krylov", families=["dense", "invariant", "near-invariant", "unit", "scaled", "wide", "tiny", "real-v-complex-A"],
                    tol=TOL_K, tol_wide=TOL_K_WIDE))
    run.sample(dict(kernel="svd_qn/eigh_qn", modes=["svd-full", "svd-full-noopt", "svd-econ", "qr-L/R-econ/full", "eigh-L/R"]))
