"""Shared generators and dense oracles for C08 (DMRG optimiser) and C17 (fermions / site swapping).

Everything used as an ORACLE is computed with NumPy from matrices written down in this file
(occupation-number fermions, 2x2 spin matrices, truncated oscillators, Kronecker embedding with
site 0 most significant = the order of `Mps.todense()` / `Mpo.todense()`); never from
`basis.op_mat`, `Mpo.todense` or any other part of renormalizer.
"""
import itertools
import logging

import numpy as np
import scipy.sparse as sp

logging.disable(logging.CRITICAL)

from renormalizer.model import Model, Op  # noqa: E402
from renormalizer.model import basis as ba  # noqa: E402
from renormalizer.mps import Mps, Mpo  # noqa: E402

EPS = float(np.finfo(float).eps)


def seed_legacy(rng):
    """`Mps.random`, `TTNS.random` and the Davidson start vectors use the global NumPy state."""
    np.random.seed(int(rng.integers(0, 2 ** 31 - 1)))


def tolist(a):
    a = np.asarray(a)
    if np.iscomplexobj(a):
        return dict(re=a.real.tolist(), im=a.imag.tolist())
    return a.tolist()


# ----------------------------------------------------------------------------- local matrices
def _sho(n):
    b = np.diag(np.sqrt(np.arange(1, n)), k=1)
    return {"I": np.eye(n), "b": b, r"b^\dagger": b.T.copy(), r"b^\dagger b": np.diag(np.arange(n) * 1.0),
            r"b^\dagger+b": b + b.T}


SPIN = {"I": np.eye(2), "sigma_x": np.array([[0, 1.], [1, 0]]), "sigma_z": np.diag([1., -1.]),
        "sigma_+": np.array([[0, 1.], [0, 0]]), "sigma_-": np.array([[0, 0], [1., 0]]),
        "+": np.array([[0, 1.], [0, 0]]), "-": np.array([[0, 0], [1., 0]]), "Z": np.diag([1., -1.])}
ELEC = {"I": np.eye(2), r"a^\dagger": np.array([[0, 0], [1., 0]]), "a": np.array([[0, 1.], [0, 0]]),
        r"a^\dagger a": np.diag([0., 1.])}


class Site:
    """kind in {'spin','elec','sho'}; qn: per-level quantum numbers (tuples); n levels"""

    def __init__(self, kind, dof, n, qn, omega=1.0):
        self.kind, self.dof, self.n, self.qn, self.omega = kind, dof, n, [tuple(q) for q in qn], omega

    def mats(self):
        if self.kind == "spin":
            return SPIN
        if self.kind == "elec":
            return ELEC
        return _sho(self.n)

    def mat(self, sym):
        """matrix of a (possibly composite, space separated) symbol"""
        m = np.eye(self.n)
        table = self.mats()
        for s in sym.split(" "):
            m = m @ table[s]
        return m

    def basis(self):
        if self.kind == "spin":
            return ba.BasisHalfSpin(self.dof, sigmaqn=[list(q) for q in self.qn])
        if self.kind == "elec":
            return ba.BasisSimpleElectron(self.dof, sigmaqn=[list(q) for q in self.qn])
        b = ba.BasisSHO(self.dof, self.omega, self.n)
        if len(self.qn[0]) != 1:
            b.sigmaqn = np.zeros((self.n, len(self.qn[0])), dtype=int)
        return b


class TModel:
    """sites: list[Site]; terms: list of (factor, [(site_idx, symbol), ...]).  A symbol may be a
    space separated product on one site.  `lib_terms` (optional) are library Op objects that are to be
    used instead of ours on the library side (the qc model: they come from h_qc.qc_model) and
    `dense_override` the independent dense matrix that goes with them."""

    def __init__(self, sites, terms, label="", lib_terms=None, dense_override=None, extra=None):
        self.sites, self.terms, self.label = sites, terms, label
        self.dims = [s.n for s in sites]
        self.dim = int(np.prod(self.dims))
        self.lib_terms = lib_terms
        self.dense_override = dense_override
        self.extra = extra or {}
        self._model = None

    @property
    def qn_size(self):
        return len(self.sites[0].qn[0])

    def embed(self, ops):
        out = np.eye(1)
        for i, s in enumerate(self.sites):
            out = np.kron(out, ops.get(i, np.eye(s.n)))
        return out

    def dense_h(self):
        if self.dense_override is not None:
            return self.dense_override
        h = np.zeros((self.dim, self.dim))
        for f, facs in self.terms:
            h = h + f * self.embed({i: self.sites[i].mat(sym) for i, sym in facs})
        return h

    def qn_of_states(self, order=None):
        qs = self.qn_size
        tot = np.zeros([1, qs], dtype=int)
        sites = self.sites if order is None else [self.sites[k] for k in order]
        for s in sites:
            q = np.array(s.qn, dtype=int).reshape(s.n, qs)
            tot = (tot[:, None, :] + q[None, :, :]).reshape(-1, qs)
        return tot

    def sector_mask(self, qntot, order=None):
        q = self.qn_of_states(order)
        return np.all(q == np.array(qntot).reshape(1, -1), axis=1)

    def sectors(self):
        q = self.qn_of_states()
        uniq, cnt = np.unique(q, axis=0, return_counts=True)
        return [(tuple(int(x) for x in u), int(c)) for u, c in zip(uniq, cnt)]

    def _simple_qn(self, i, sym):
        site = self.sites[i]
        m = site.mats()[sym]
        q = np.array(site.qn, dtype=int).reshape(site.n, -1)
        r, c = np.nonzero(m)
        d = {tuple(q[a] - q[b]) for a, b in zip(r, c)}
        assert len(d) == 1, (sym, d)
        return np.array(d.pop(), dtype=int)

    def ops(self):
        if self.lib_terms is not None:
            return self.lib_terms
        res = []
        for f, facs in self.terms:
            syms, dofs, qns = [], [], []
            for i, sym in facs:
                for simple in sym.split(" "):
                    syms.append(simple)
                    dofs.append(self.sites[i].dof)
                    qns.append(self._simple_qn(i, simple))
            res.append(Op(" ".join(syms), dofs, f, qn=qns))
        return res

    def model(self):
        if self._model is None:
            self._model = Model([s.basis() for s in self.sites], self.ops())
        return self._model

    def fresh_model(self):
        return Model([s.basis() for s in self.sites], self.ops())

    def describe(self):
        d = dict(label=self.label,
                 sites=[(s.kind, str(s.dof), s.n, [list(q) for q in s.qn], s.omega) for s in self.sites])
        if self.lib_terms is None:
            d["terms"] = [((float(f) if np.isreal(f) else [float(np.real(f)), float(np.imag(f))]), [(int(i), s) for i, s in facs])
                          for f, facs in self.terms]
        d.update(self.extra)
        return d


# ----------------------------------------------------------------------------- model generators
def _r(rng, lo=0.3, hi=1.0):
    return float(np.round(rng.uniform(lo, hi) * rng.choice([-1, 1]), 3))


def gen_spin_model(rng, n=None, conserve=False, sigma_names=True):
    """random spin-1/2 model with long-range couplings. conserve: U(1) labels (level 1 carries 1)."""
    n = n or int(rng.integers(3, 6))
    qn = [(0,), (1,)] if conserve else [(0,), (0,)]
    sites = [Site("spin", f"s{i}", 2, qn) for i in range(n)]
    terms = []
    pairs = [(i, j) for i in range(n) for j in range(i + 1, n)]
    rng.shuffle(pairs)
    keep = pairs[: int(rng.integers(0, len(pairs) + 1))]
    for i in range(n - 1):
        if (i, i + 1) not in keep:
            keep.append((i, i + 1))
    for (i, j) in keep:
        if conserve:
            c = _r(rng)
            terms.append((c, [(i, "sigma_+"), (j, "sigma_-")]))
            terms.append((c, [(i, "sigma_-"), (j, "sigma_+")]))
            if rng.random() < 0.6:
                terms.append((_r(rng), [(i, "sigma_z"), (j, "sigma_z")]))
        else:
            kind = rng.choice(["xx", "zz", "xz", "pm"])
            if kind == "xx":
                terms.append((_r(rng), [(i, "sigma_x"), (j, "sigma_x")]))
            elif kind == "zz":
                terms.append((_r(rng), [(i, "sigma_z"), (j, "sigma_z")]))
            elif kind == "pm":
                c = _r(rng)
                terms.append((c, [(i, "sigma_+"), (j, "sigma_-")]))
                terms.append((c, [(i, "sigma_-"), (j, "sigma_+")]))
            else:
                c = _r(rng)
                terms.append((c, [(i, "sigma_x"), (j, "sigma_z")]))
    for i in range(n):
        if rng.random() < 0.8:
            terms.append((_r(rng), [(i, "sigma_z")]))
        if not conserve and rng.random() < 0.6:
            terms.append((_r(rng), [(i, "sigma_x")]))
    if conserve and n >= 3 and rng.random() < 0.4:
        # a three-body term keeps the MPO bonds non-trivial
        i, j, k = sorted(rng.choice(n, size=3, replace=False).tolist())
        terms.append((_r(rng), [(i, "sigma_z"), (j, "sigma_z"), (k, "sigma_z")]))
    return TModel(sites, terms, "spin-u1" if conserve else "spin")


def gen_collective_model(rng, n=None):
    """all-to-all exchange with a rank-one sign pattern, U(1) labels:  g sum_{i != j} s_i s_j s+_i s-_j  + weak fields.
    In the one-excitation sector one collective state sits at about g (n-1), all others near -g: local spectra skewed to one side
    (what shift-and-invert / largest-magnitude shortcuts of iterative eigensolvers are sensitive to)."""
    n = n or int(rng.integers(4, 7))
    qn = [(0,), (1,)]
    sites = [Site("spin", f"s{i}", 2, qn) for i in range(n)]
    g = float(np.round(rng.uniform(0.6, 1.4) * rng.choice([-1, 1]), 3))
    sg = [int(rng.choice([-1, 1])) for _ in range(n)]
    terms = []
    for i in range(n):
        for j in range(i + 1, n):
            c = g * sg[i] * sg[j]
            terms.append((c, [(i, "sigma_+"), (j, "sigma_-")]))
            terms.append((c, [(i, "sigma_-"), (j, "sigma_+")]))
    for i in range(n):
        terms.append((float(np.round(rng.uniform(-0.05, 0.05), 3)) or 0.01, [(i, "sigma_z")]))
    return TModel(sites, terms, "spin-u1-collective")


def gen_eph_model(rng, nmol=None, two_qn=False, nmode_per_mol=None, nbas=None, interleave=True):
    """Holstein-like model: sum J (a+_i a_j + h.c.) + eps a+a + w b+b + g a+a (b+ + b), generic Model
    (not HolsteinModel).  two_qn: molecules alternate between species (1,0) / (0,1)."""
    if nmol is None:
        nmol = int(rng.integers(2, 4))
    qs = 2 if two_qn else 1
    zero = (0,) * qs
    sites, terms, e_idx = [], [], []
    pending = []
    for m in range(nmol):
        q1 = ((1, 0) if m % 2 == 0 else (0, 1)) if two_qn else (1,)
        e_idx.append(len(sites))
        sites.append(Site("elec", f"e{m}", 2, [zero, q1]))
        k = nmode_per_mol if nmode_per_mol is not None else int(rng.integers(0, 3 if nmol <= 2 else 2))
        for a in range(k):
            nb = nbas or int(rng.integers(2, 5))
            w = float(np.round(rng.uniform(0.5, 1.5), 3))
            st = Site("sho", f"v{m}_{a}", nb, [zero] * nb, omega=w)
            if interleave:
                vi = len(sites)
                sites.append(st)
                terms.append((w, [(vi, r"b^\dagger b")]))
                terms.append((_r(rng, 0.2, 0.8), [(e_idx[-1], r"a^\dagger a"), (vi, r"b^\dagger+b")]))
            else:
                pending.append((st, e_idx[-1], w))
    for st, ei, w in pending:
        vi = len(sites)
        sites.append(st)
        terms.append((w, [(vi, r"b^\dagger b")]))
        terms.append((_r(rng, 0.2, 0.8), [(ei, r"a^\dagger a"), (vi, r"b^\dagger+b")]))
    for a in range(nmol):
        terms.append((_r(rng, 0.1, 1.0), [(e_idx[a], r"a^\dagger a")]))
        for b in range(a + 1, nmol):
            if two_qn and (a - b) % 2 != 0:
                terms.append((_r(rng, 0.2, 0.8), [(e_idx[a], r"a^\dagger a"), (e_idx[b], r"a^\dagger a")]))
                continue
            if b == a + 1 or two_qn or rng.random() < 0.5:
                c = _r(rng, 0.3, 1.0)
                terms.append((c, [(e_idx[a], r"a^\dagger"), (e_idx[b], "a")]))
                terms.append((c, [(e_idx[a], "a"), (e_idx[b], r"a^\dagger")]))
    return TModel(sites, terms, "eph-2qn" if two_qn else "eph")


def complexify(tm, rng):
    """Peierls phases: every hopping pair  c s+_i s-_j + c s-_i s+_j  (or a+_i a_j + h.c.) becomes
    c e^{i phi} . + c e^{-i phi} . ; the Hamiltonian stays Hermitian, its matrix becomes complex."""
    terms, k, changed = [], 0, False
    raising = {"sigma_+": "sigma_-", r"a^\dagger": "a"}
    while k < len(tm.terms):
        f, facs = tm.terms[k]
        nxt = tm.terms[k + 1] if k + 1 < len(tm.terms) else None
        if (nxt is not None and len(facs) == 2 and len(nxt[1]) == 2 and facs[0][1] in raising and facs[1][1] == raising[facs[0][1]]
                and nxt[1][0] == (facs[0][0], facs[1][1]) and nxt[1][1] == (facs[1][0], facs[0][1]) and nxt[0] == f):
            ph = complex(np.round(np.exp(1j * rng.uniform(0.3, 2.8)), 3))
            terms.append((f * ph, facs))
            terms.append((f * np.conj(ph), nxt[1]))
            k += 2
            changed = True
        else:
            terms.append((f, facs))
            k += 1
    if not changed:
        return tm
    out = TModel(tm.sites, terms, tm.label, extra=dict(tm.extra, complex_hopping=True))
    return out


# ----------------------------------------------------------------------------- fermions (reference)
def occ_bits(nso):
    """bits[k, j] = occupation of spin orbital j in basis state k (orbital 0 most significant)"""
    idx = np.arange(2 ** nso)
    return np.array([(idx >> (nso - 1 - j)) & 1 for j in range(nso)]).T


def fermi_annihilators(nso):
    """a_p|n> = (-1)^{sum_{q<p} n_q} n_p |n - e_p>, as dense matrices in the occupation basis."""
    dim = 2 ** nso
    bits = occ_bits(nso)
    ops = []
    for p in range(nso):
        a = np.zeros((dim, dim))
        for k in range(dim):
            if bits[k, p]:
                sign = -1.0 if (int(bits[k, :p].sum()) % 2) else 1.0
                a[k - (1 << (nso - 1 - p)), k] = sign
        ops.append(a)
    return ops


def _sparse_ladder(nso):
    a = [sp.csr_matrix(x) for x in fermi_annihilators(nso)]
    ad = [sp.csr_matrix(x.T) for x in a]
    return a, ad


def fermi_h_spatial(h, eri):
    """H = sum_{pq,s} h_pq a+_{ps} a_{qs} + 1/2 sum_{pqrs,s,t} (pq|rs) a+_{ps} a+_{rt} a_{st} a_{qs};
    spin orbital index = 2*spatial + spin (alpha = 0, beta = 1)."""
    n = len(h)
    nso = 2 * n
    a, ad = _sparse_ladder(nso)
    dim = 2 ** nso
    H = sp.csr_matrix((dim, dim))
    for p, q in itertools.product(range(n), repeat=2):
        if h[p, q] != 0:
            for s in range(2):
                H += h[p, q] * ad[2 * p + s] @ a[2 * q + s]
    for p, q, r, s in itertools.product(range(n), repeat=4):
        v = eri[p, q, r, s]
        if v == 0:
            continue
        for s1 in range(2):
            for s2 in range(2):
                H += 0.5 * v * ad[2 * p + s1] @ ad[2 * r + s2] @ a[2 * s + s2] @ a[2 * q + s1]
    return np.asarray(H.todense())


def fermi_h_spinorb(h1, h2):
    """H = sum h1[p,q] a+_p a_q + sum h2[p,q,r,s] a+_p a+_q a_r a_s (every non-zero entry as given)"""
    nso = len(h1)
    a, ad = _sparse_ladder(nso)
    dim = 2 ** nso
    H = sp.csr_matrix((dim, dim))
    for p, q in np.argwhere(h1 != 0):
        H += h1[p, q] * ad[p] @ a[q]
    for p, q, r, s in np.argwhere(h2 != 0):
        H += h2[p, q, r, s] * ad[p] @ ad[q] @ a[r] @ a[s]
    return np.asarray(H.todense())


def number_ops(nso):
    """(N_alpha, N_beta) as diagonal vectors; alpha = even spin orbitals"""
    bits = occ_bits(nso)
    return bits[:, 0::2].sum(axis=1), bits[:, 1::2].sum(axis=1)


def symmetrise_eri(t, sym):
    """sym: '8' real-orbital symmetry, '4' = {(pq|rs)=(rs|pq), (pq|rs)=(qp|sr)}, 'pair' = (pq|rs)=(rs|pq)"""
    if sym == "8":
        t = t + t.transpose(1, 0, 2, 3)
        t = t + t.transpose(0, 1, 3, 2)
        t = t + t.transpose(2, 3, 0, 1)
    elif sym == "4":
        t = t + t.transpose(2, 3, 0, 1)
        t = t + t.transpose(1, 0, 3, 2)
    else:
        t = t + t.transpose(2, 3, 0, 1)
    return t


def gen_integrals(rng, n, sym="8", style=None):
    """random integrals for n spatial orbitals.  style: dense / sparse / block / onebody / integer"""
    style = style or str(rng.choice(["dense", "sparse", "block", "onebody", "integer", "dense"]))
    if style == "integer":
        h = rng.integers(-3, 4, size=(n, n)).astype(float)
        t = rng.integers(-2, 3, size=(n, n, n, n)).astype(float)
    else:
        h = np.round(rng.normal(size=(n, n)), 3)
        t = np.round(rng.normal(size=(n, n, n, n)) * 0.5, 3)
    if style == "sparse":
        h = h * (rng.random((n, n)) < 0.5)
        t = t * (rng.random((n, n, n, n)) < 0.25)
    h = h + h.T
    eri = symmetrise_eri(t, sym)
    if style == "block" and n >= 2:
        # every integral that couples a random subset of orbitals to the rest vanishes
        k = int(rng.integers(1, n))
        grp = np.zeros(n, dtype=int)
        grp[rng.choice(n, size=k, replace=False)] = 1
        same2 = grp[:, None] == grp[None, :]
        h = h * same2
        same4 = (grp[:, None, None, None] == grp[None, :, None, None]) & \
                (grp[:, None, None, None] == grp[None, None, :, None]) & \
                (grp[:, None, None, None] == grp[None, None, None, :])
        eri = eri * same4
    if style == "onebody":
        if rng.random() < 0.5:
            eri = eri * 0
        else:
            h = h * 0
    if not h.any() and not eri.any():
        h = h + np.eye(n)
    return h, eri, style


def qc_tmodel(h, eri, conserve_qn=True, sym="8", style=""):
    """TModel wrapping the library's qc_model output, with the independent fermionic dense matrix"""
    from renormalizer.model import h_qc
    sh, aseri = h_qc.int_to_h(h, eri)
    basis, terms = h_qc.qc_model(sh, aseri, stacked=False, conserve_qn=conserve_qn)
    nso = 2 * len(h)
    sites = []
    for j in range(nso):
        if conserve_qn:
            qn = [(0, 0), (1, 0)] if j % 2 == 0 else [(0, 0), (0, 1)]
        else:
            qn = [(0,), (0,)]
        sites.append(Site("spin", j, 2, qn))
    tm = TModel(sites, [], "qc", lib_terms=terms, dense_override=fermi_h_spatial(h, eri),
                extra=dict(h=tolist(h), eri=tolist(eri), sym=sym, style=style, conserve_qn=conserve_qn))
    tm._lib_basis = basis
    return tm


# ----------------------------------------------------------------------------- permutations / swaps
def swap_matrix(dims, i, jw=False):
    """matrix mapping amplitudes with site order (..,i,i+1,..) of local dimensions `dims` to the order with
    the two sites exchanged; jw: fermionic exchange, sign -1 when both sites are in level 1."""
    dims = list(dims)
    n = len(dims)
    dim = int(np.prod(dims))
    idx = np.arange(dim).reshape(dims)
    perm = list(range(n))
    perm[i], perm[i + 1] = perm[i + 1], perm[i]
    src = idx.transpose(perm).ravel()      # new flat index k  <- old flat index src[k]
    P = np.zeros((dim, dim))
    P[np.arange(dim), src] = 1.0
    if jw:
        assert dims[i] == 2 and dims[i + 1] == 2
        lev = np.array(np.unravel_index(np.arange(dim), dims)).T
        sign = np.where((lev[:, i] == 1) & (lev[:, i + 1] == 1), -1.0, 1.0)
        P = P * sign[None, :]
    return P


def perm_matrix(dims, order, fermi=False):
    """matrix taking amplitudes in the original site order to site order `order` (order[k] = original
    index of the site now at position k).  fermi: sign of the permutation restricted to level-1 sites
    (the product of fermionic adjacent exchanges, which does not depend on the path)."""
    dims = list(dims)
    n = len(dims)
    dim = int(np.prod(dims))
    idx = np.arange(dim).reshape(dims)
    src = idx.transpose(order).ravel()
    P = np.zeros((dim, dim))
    P[np.arange(dim), src] = 1.0
    if fermi:
        lev = np.array(np.unravel_index(np.arange(dim), dims)).T   # levels in ORIGINAL order per old index
        pos = np.argsort(order)   # pos[orig] = new position
        sign = np.ones(dim)
        for a in range(n):
            for b in range(a + 1, n):
                if pos[a] > pos[b]:
                    sign = sign * np.where((lev[:, a] == 1) & (lev[:, b] == 1), -1.0, 1.0)
        P = P * sign[None, :]
    return P


def random_mps(model, rng, qntot, m, tries=8):
    for _ in range(tries):
        seed_legacy(rng)
        try:
            with np.errstate(all="raise"):
                mps = Mps.random(model, np.array(qntot) if np.ndim(qntot) else qntot, m, percent=1.0)
            v = mps.todense()
            if np.all(np.isfinite(v)) and np.linalg.norm(v) > 1e-8:
                return mps
        except (FloatingPointError, ZeroDivisionError):
            continue
    return None
