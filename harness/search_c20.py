"""C20 failing-input search: bipartite vertex cover valid & minimum (both algorithms), and the
bond-dimension consequence for operators built with the graph algorithms.

Part A  `bipartite_vertex_cover(bigraph, algo)` on the REAL routine
  * every bipartite graph with 1..3 (quick) / 1..4 (thorough) vertices per side, by enumeration of
    the adjacency matrix, neighbour lists ascending; plus the same graphs with shuffled neighbour
    lists / numpy index arrays on a sample; plus random graphs up to 12 x 12 (isolated vertices,
    empty and complete rows, unbalanced sides).
  * oracle: (1) the call returns; (2) the U table has one entry per U vertex, the V table one entry
    per V vertex up to the largest index that occurs (the routine is not told |V|);
    (3) every edge has a selected endpoint; (4) the number of selected vertices equals the
    minimum vertex cover computed by brute force over all vertex subsets (vectorised over all
    graphs of a shape) -- for the larger random graphs by an independently written
    augmenting-path matching used as a certificate (a valid matching of the same size as a valid
    cover proves both optimal), cross-checked by max-flow before anything is reported.

Part B  `Mpo(...).bond_dims` for algo in {Hopcroft-Karp, Hungarian}
  * oracle: at every cut k the bond dimension equals the minimum vertex cover (= maximum matching,
    computed with the independent matching and by brute force when small) of the incidence matrix
    "distinct left partial terms x distinct right partial terms" of the ORIGINAL, deduplicated term
    list (built here from the term specs, never from the library's table).  That this global
    quantity is what a correct step-by-step construction yields is a theorem (each compression
    step with ANY minimum cover preserves the matching number of every later cut: every cover
    vertex is matched to a non-cover vertex, which gives the system of distinct representatives
    needed to lift a matching), so there is no tolerance and no heuristic in this oracle.
  * in situ: the graphs that the construction really hands to `bipartite_vertex_cover` are
    recorded (wrapper on the module attribute) and judged as in part A.

Known defect reported with its own signatures (D13): Hopcroft-Karp on a graph without edges
(IndexError; signature `raises:Hopcroft-Karp:edgeless:index`, the same string as the L2 harness c20.py
uses, so that one known-findings entry covers both) and with trailing isolated U vertices (U table
too short; `cover:Hopcroft-Karp:trailing-isolated-U:short-U-table`).  A graph with no U vertex at
all (bigraph = []) is not generated.

Replay objects carry the adjacency matrix (rows = U, columns = V), the literal neighbour lists
handed to the routine, the algorithm, the returned tables and the expected minimum.
"""
import itertools
import time

import numpy as np

import lib_mpo as L
from renormalizer.lib.bipartite_matching.bipartite_matching import bipartite_vertex_cover
import renormalizer.mps.symbolic_mpo as sm
from renormalizer.mps import Mpo
from renormalizer.utils import Quantity

ALGOS = ("Hopcroft-Karp", "Hungarian")


def report(run, signature, replay):
    """run.violation keeps one replay per signature and counts every further hit (the exhaustive
    enumeration meets the same defect on many graphs)"""
    run.violation(signature, replay)


# ------------------------------------------------------------------------------------ part A
def all_min_covers(nU, nV):
    """minimum vertex cover size of every graph of shape nU x nV (graph = bitmask over nU*nV edges,
    bit u*nV+v), by brute force over all 2^(nU+nV) vertex subsets, vectorised over graphs."""
    ne = nU * nV
    G = np.arange(1 << ne, dtype=np.int64)
    best = np.full(G.shape, nU + nV, dtype=np.int64)
    for mask in range(1 << (nU + nV)):
        cov = 0
        for u in range(nU):
            for v in range(nV):
                if (mask >> u) & 1 or (mask >> (nU + v)) & 1:
                    cov |= 1 << (u * nV + v)
        pc = bin(mask).count("1")
        ok = (G & ~np.int64(cov)) == 0
        best = np.where(ok & (pc < best), pc, best)
    return best


def adj_from_bits(g, nU, nV):
    return [[(g >> (u * nV + v)) & 1 for v in range(nV)] for u in range(nU)]


def judge_cover(run, A, bigraph, algo, expected_min, where, extra=None):
    """call the real routine on `bigraph` (neighbour lists realising adjacency matrix A) and judge it.
    returns the cover size or None"""
    A = np.asarray(A)
    nU = A.shape[0]
    nedge = int(A.sum())
    maxv = max([int(v) for row in bigraph for v in row], default=-1)
    rep = dict(where=where, algo=algo, adjacency_matrix=A.tolist(), encoding="rows = U vertices, columns = V vertices",
               neighbour_lists=[[int(v) for v in row] for row in bigraph],
               neighbour_list_type=type(bigraph[0]).__name__ if len(bigraph) else "list", expected_min_cover=int(expected_min))
    if extra:
        rep.update(extra)
    try:
        tu, tv = bipartite_vertex_cover(bigraph, algo=algo)
    except Exception as e:  # noqa: BLE001
        rep["observed"] = f"{type(e).__name__}: {e}"
        if algo == "Hopcroft-Karp" and nedge == 0 and isinstance(e, IndexError):
            run.count("D13:edgeless:IndexError")
            report(run, "raises:Hopcroft-Karp:edgeless:index", rep)
        else:
            run.count(f"exception:{algo}:{type(e).__name__}")
            report(run, f"cover:{algo}:exception:{type(e).__name__}", rep)
        return None
    tu = list(tu)
    tv = list(tv)
    rep["observed"] = dict(U=[bool(x) for x in tu], V=[bool(x) for x in tv])
    bad_type = [x for x in tu + tv if not isinstance(x, (bool, np.bool_))]
    if bad_type:
        report(run, f"cover:{algo}:non-boolean-table", rep)
        return None
    # table lengths
    if len(tu) != nU:
        last_nonempty = max([u for u in range(nU) if len(bigraph[u])], default=-1)
        if algo == "Hopcroft-Karp" and len(tu) == last_nonempty + 1:
            run.count("D13:trailing-isolated-U:short-table")
            report(run, "cover:Hopcroft-Karp:trailing-isolated-U:short-U-table", rep)
        else:
            report(run, f"cover:{algo}:U-table-length", rep)
    if len(tv) != maxv + 1:
        report(run, f"cover:{algo}:V-table-length", rep)
    su = {u for u, b in enumerate(tu) if b}
    sv = {v for v, b in enumerate(tv) if b}
    if any(u >= nU for u in su) or any(v > maxv for v in sv):
        report(run, f"cover:{algo}:selected-vertex-out-of-range", rep)
        return None
    for u in range(nU):
        for v in bigraph[u]:
            if u not in su and int(v) not in sv:
                rep["uncovered_edge"] = [u, int(v)]
                report(run, f"cover:{algo}:edge-uncovered", rep)
                return None
    size = len(su) + len(sv)
    if size != expected_min:
        rep["observed_size"] = size
        report(run, f"cover:{algo}:not-minimum", rep)
    return size


def lists_from(A, rng=None, style="list"):
    A = np.asarray(A)
    out = []
    for u in range(A.shape[0]):
        nb = [int(v) for v in np.nonzero(A[u])[0]]
        if rng is not None and len(nb) > 1:
            nb = [nb[int(i)] for i in rng.permutation(len(nb))]
        if style == "ndarray":
            nb = np.array(nb, dtype=np.int32)
        out.append(nb)
    return out


def certified_min_cover(A):
    """min cover size of a larger graph: independent matching (validated) and max-flow must agree"""
    A = np.asarray(A)
    adj = [list(np.nonzero(r)[0]) for r in A]
    k, mv = L.max_matching(adj, A.shape[1])
    assert L.is_matching(adj, mv) and sum(1 for u in mv if u != -1) == k
    kf = L.matching_number_flow(A) if A.sum() else 0
    return k, kf


def part_a(run, rng, quick):
    # (nU, nV, number of graphs judged; None = every graph of that shape)
    if quick:
        shapes = [(a, b, None) for a in range(1, 5) for b in range(1, 5) if (a, b) != (4, 4)] + [(4, 4, 4000)]
    else:
        shapes = [(a, b, None) for a in range(1, 5) for b in range(1, 5)]
        shapes += [(5, 1, None), (1, 5, None), (5, 2, None), (2, 5, None), (5, 3, None), (3, 5, None),
                   (5, 4, 20000), (4, 5, 20000)]
    n_eval = 0
    distinct = 0
    for nU, nV, nsel in shapes:
        best = all_min_covers(nU, nV)
        ngraph = 1 << (nU * nV)
        if nsel is None:
            todo = range(ngraph)
            tag = "exhaustive"
        else:
            todo = [int(g) for g in rng.choice(ngraph, size=nsel, replace=False)]
            tag = "sampled"
        for g in todo:
            A = adj_from_bits(g, nU, nV)
            bg = lists_from(A)
            for algo in ALGOS:
                judge_cover(run, A, bg, algo, best[g], tag)
                n_eval += 1
            if g:
                distinct += 1
        run.count(f"{tag}:{nU}x{nV}", len(todo))
        # the same shape with permuted neighbour lists / numpy index arrays (what _decompose_graph passes)
        nsamp = min(ngraph, 150 if quick else 1500)
        for g in rng.choice(ngraph, size=nsamp, replace=False):
            g = int(g)
            A = adj_from_bits(g, nU, nV)
            style = "ndarray" if rng.random() < 0.5 else "list"
            bg = lists_from(A, rng, style)
            for algo in ALGOS:
                judge_cover(run, A, bg, algo, best[g], "shuffled-neighbour-lists")
                n_eval += 1
            run.count(f"shuffled:{style}")
    # random larger graphs
    nrand = 1200 if quick else 15000
    for it in range(nrand):
        nU = int(rng.integers(1, 13))
        nV = int(rng.integers(1, 13))
        p = float(rng.choice([0.08, 0.2, 0.4, 0.7, 0.95]))
        A = (rng.random((nU, nV)) < p).astype(int)
        kind = int(rng.integers(6))
        if kind == 0:
            A[int(rng.integers(nU))] = 1                      # complete row
        elif kind == 1:
            A[int(rng.integers(nU))] = 0                      # empty row
        elif kind == 2:
            A[:, int(rng.integers(nV))] = 0                   # isolated V vertex
        elif kind == 3 and nU > 1 and nV > 1:
            # block structure: product sets (many ties between row and column covers)
            a, b = int(rng.integers(1, nU)), int(rng.integers(1, nV))
            A[:] = 0
            A[:a, :b] = 1
            A[a:, b:] = (rng.random((nU - a, nV - b)) < 0.5)
        elif kind == 4:
            A[-1] = 0                                         # trailing isolated U (D13)
        k, kf = certified_min_cover(A)
        if k != kf:
            run.count("oracle-disagreement(skipped)")
            continue
        style = "ndarray" if rng.random() < 0.5 else "list"
        bg = lists_from(A, rng if rng.random() < 0.5 else None, style)
        for algo in ALGOS:
            judge_cover(run, A, bg, algo, k, "random")
            n_eval += 1
        distinct += 1
        run.count(f"random:size<={4 * ((max(nU, nV) + 3) // 4)}")
        run.count("random:balanced" if nU == nV else ("random:U<V" if nU < nV else "random:U>V"))
    return n_eval, distinct


# ------------------------------------------------------------------------------------ part B
term_rows = L.term_rows


def cut_matrices(rows_kept, n):
    res = []
    for cut in range(1, n):
        ls = sorted({k[:cut] for k in rows_kept}, key=repr)
        rs = sorted({k[cut:] for k in rows_kept}, key=repr)
        li = {k: i for i, k in enumerate(ls)}
        ri = {k: i for i, k in enumerate(rs)}
        A = np.zeros((len(ls), len(rs)), dtype=int)
        for k in rows_kept:
            A[li[k[:cut]], ri[k[cut:]]] = 1
        res.append(A)
    return res


def gen_table_case(rng, quick):
    """structural term tables on small chains: random supports, shared prefixes / suffixes,
    product structure (left set x right set), long-range pair sums (complementary operators)"""
    nsite = int(rng.integers(2, 7 if quick else 8))
    mixed = rng.random() < 0.3
    if mixed:
        bs = L.gen_basis_specs(rng, nsite, kinds=["spin", "elec", "multivac", "multi", "sho", "dummy"], maxdim=3, dense_cap=1 << 30)
    else:
        bs = [dict(kind="spin", dof=i) for i in range(nsite)]
    style = int(rng.integers(4))
    nt = int(rng.integers(2, 25 if quick else 45))
    if style == 0 or mixed:
        terms = L.gen_terms(rng, bs, nt, False, "unit", rich=False, max_support=int(rng.integers(1, nsite + 1)),
                            p_explicit_I=0.0, p_identity=0.03)
    elif style == 1:
        # product structure: (sum of left strings) x (sum of right strings) around a random cut, plus noise
        cut = int(rng.integers(1, nsite))
        alpha = ["X", "Z", "sigma_+", "sigma_-"]
        def rand_string(sites):
            s = {}
            for i in sites:
                if rng.random() < 0.6:
                    s[i] = alpha[int(rng.integers(len(alpha)))]
            return s
        lefts = [rand_string(range(cut)) for _ in range(int(rng.integers(1, 5)))]
        rights = [rand_string(range(cut, nsite)) for _ in range(int(rng.integers(1, 5)))]
        terms = []
        for a in lefts:
            for b in rights:
                if rng.random() < 0.85:
                    d = dict(a)
                    d.update(b)
                    if d:
                        ks = sorted(d)
                        terms.append([[d[i] for i in ks], ks, [float(np.round(rng.normal(), 4)) or 1.0, None]])
        terms += L.gen_terms(rng, bs, int(rng.integers(0, 4)) + (0 if terms else 2), False, "unit", rich=False, p_explicit_I=0.0)
    elif style == 2:
        # long-range pair sums  sum_ij J_ij A_i B_j  (+ local terms): complementary-operator regime
        terms = []
        for i in range(nsite):
            for j in range(nsite):
                if i != j and rng.random() < 0.7:
                    terms.append([["sigma_+", "sigma_-"], [i, j], [float(np.round(rng.normal(), 4)) or 1.0, None]])
            if rng.random() < 0.5:
                terms.append([["Z"], [i], [float(np.round(rng.normal(), 4)) or 1.0, None]])
        if not terms:
            terms = [[["Z"], [0], [1.0, None]], [["X"], [nsite - 1], [1.0, None]]]
    else:
        # tiny alphabet, dense support: many ties between minimum covers
        alpha = ["X", "Z"][: int(rng.integers(1, 3))]
        terms = []
        seen = set()
        for _ in range(nt):
            word = tuple(alpha[int(rng.integers(len(alpha)))] if rng.random() < 0.6 else None for _ in range(nsite))
            if word in seen or all(w is None for w in word):
                continue
            seen.add(word)
            ks = [i for i in range(nsite) if word[i] is not None]
            terms.append([[word[i] for i in ks], ks, [float(rng.integers(1, 4)), None]])
        if not terms:
            terms = [[["X"], [0], [1.0, None]]]
    offset = float(rng.choice([0.0, 0.0, 0.5, -2.0]))
    return bs, terms, offset, ("mixed" if mixed else f"style{style}")


def part_b(run, rng, quick, deadline):
    ncase = 900 if quick else 12000
    n_eval = 0
    distinct = 0
    seen = set()
    recorded = []
    orig = sm.bipartite_vertex_cover

    def recorder(bigraph, algo="Hopcroft-Karp"):
        res = orig(bigraph, algo=algo)
        recorded.append(([np.array(r).copy() for r in bigraph], algo, ([bool(x) for x in res[0]], [bool(x) for x in res[1]])))
        return res

    sm.bipartite_vertex_cover = recorder
    try:
        for it in range(ncase):
            if time.time() > deadline:
                run.count("partB:stopped-by-deadline")
                break
            bs, terms, offset, style = gen_table_case(rng, quick)
            n = len(bs)
            rows = term_rows(bs, terms, offset)
            mx = max(abs(v) for v in rows.values())
            if mx == 0:
                run.count("rejected:total-cancellation")
                continue
            # rows whose summed factor is within a factor 1e3 of the library's drop threshold
            # (1e-15 * max) are a borderline decision: skip the case (counted)
            if any(0 < abs(v) <= 1e-12 * mx for v in rows.values()):
                run.count("skipped:borderline-cancellation")
                continue
            kept = [k for k, v in rows.items() if abs(v) > 0]
            mats = cut_matrices(kept, n)
            expected = [1]
            for A in mats:
                adj = [list(np.nonzero(r)[0]) for r in A]
                k, mv = L.max_matching(adj, A.shape[1])
                assert L.is_matching(adj, mv)
                if A.shape[0] + A.shape[1] <= 12:
                    kb = L.brute_min_cover(A)
                    if kb != k:
                        run.count("oracle-disagreement(skipped)")
                        k = None
                        break
                expected.append(k)
            if k is None:
                continue
            expected.append(1)
            try:
                model = L.make_model(bs)
                ops = [L.make_op(t) for t in terms]
            except Exception as e:  # noqa: BLE001
                run.count(f"generator-error:{type(e).__name__}")
                continue
            key = repr(sorted(kept, key=repr))
            nontrivial = len(kept) >= 2 and max(expected) >= 2
            if key not in seen and nontrivial:
                seen.add(key)
                distinct += 1
            run.count(f"table:{style}")
            run.count(f"table:nsite={n}")
            run.count(f"table:maxbond={min(max(expected), 8)}{'+' if max(expected) > 8 else ''}")
            if any(A.shape[0] < A.shape[1] for A in mats):
                run.count("orientation:rows<cols")
            if any(A.shape[0] >= A.shape[1] for A in mats):
                run.count("orientation:rows>=cols")
            for algo in ALGOS:
                del recorded[:]
                rep = dict(basis=bs, terms=terms, offset=offset, algo=algo, expected_bond_dims=[int(x) for x in expected],
                           cut_incidence_matrices=[A.tolist() for A in mats],
                           encoding="cut k: rows = distinct left partial terms (sites < k), columns = distinct right partial terms")
                try:
                    mpo = Mpo(model, ops, offset=Quantity(offset), algo=algo)
                except Exception as e:  # noqa: BLE001  (construction failures are C01's business)
                    run.count(f"rejected:construct:{type(e).__name__}")
                    continue
                n_eval += 1
                obs = [int(x) for x in mpo.bond_dims]
                rep["observed_bond_dims"] = obs
                if obs != [int(x) for x in expected]:
                    report(run, f"bond_dims:{algo}:not-minimum-cover", rep)
                if any(o > min(A.shape) for o, A in zip(obs[1:-1], mats)):
                    report(run, f"bond_dims:{algo}:exceeds-distinct-partial-terms", rep)
                run.sample(dict(part="B", nsite=n, nterms=len(terms), algo=algo, bond_dims=obs))
                # in-situ judgement of the graphs really handed to the cover routine
                for bg, a2, res in recorded:
                    nv = max([int(v) for r in bg for v in r], default=-1) + 1
                    A2 = np.zeros((len(bg), max(nv, 1)), dtype=int)
                    for u, r in enumerate(bg):
                        for v in r:
                            A2[u, int(v)] = 1
                    adj = [list(np.nonzero(r)[0]) for r in A2]
                    k2, mv2 = L.max_matching(adj, A2.shape[1])
                    su = {u for u, b in enumerate(res[0]) if b}
                    sv = {v for v, b in enumerate(res[1]) if b}
                    rep2 = dict(where="in-situ (recorded inside Mpo construction)", algo=a2, adjacency_matrix=A2.tolist(),
                                encoding="rows = U vertices, columns = V vertices",
                                neighbour_lists=[[int(v) for v in r] for r in bg], observed=dict(U=res[0], V=res[1]),
                                expected_min_cover=int(k2), mpo_case=dict(basis=bs, terms=terms, offset=offset))
                    if any(u not in su and v not in sv for u in range(len(bg)) for v in adj[u]):
                        report(run, f"cover-in-mpo:{a2}:edge-uncovered", rep2)
                    elif len(su) + len(sv) != k2:
                        if L.matching_number_flow(A2) == k2:
                            report(run, f"cover-in-mpo:{a2}:not-minimum", rep2)
                    run.count("in-situ-graphs")
                    n_eval += 1
    finally:
        sm.bipartite_vertex_cover = orig
    return n_eval, distinct


def part_raw(run, rng, quick):
    """raw operator tables in the convention of the `construct_symbolic_mpo` docstring (label 0 = identity on EVERY site,
    labels 1.. = other elementary operators): bond after the first site = minimum cover of the first cut, no bond above the
    number of distinct left / right partial terms, and the symbolic operator evaluates to the table's polynomial."""
    from renormalizer.model import Op
    from renormalizer.mps.symbolic_mpo import construct_symbolic_mpo
    n_eval = 0
    for it in range(120 if quick else 1500):
        nsite = int(rng.integers(2, 6))
        nlabel = int(rng.integers(2, 5))
        nterm = int(rng.integers(2, 10))
        rows = {tuple(int(x) for x in rng.integers(0, nlabel, size=nsite)) for _ in range(nterm)}
        if rng.random() < 0.5:      # neighbouring incoming operators next to the highest and the lowest label
            base = tuple(int(x) for x in rng.integers(0, nlabel, size=nsite))
            for a in range(nlabel):
                rows.add((a,) + (nlabel - 1,) + base[2:] if nsite > 2 else (a, nlabel - 1))
                rows.add((a,) + (0,) + base[2:] if nsite > 2 else (a, 0))
        table = np.array(sorted(rows), dtype=np.uint16)
        if len(table) < 2:
            continue
        factor = np.round(rng.uniform(0.5, 2.0, size=len(table)) * rng.choice([-1, 1], size=len(table)), 3)
        primary_ops = [Op("I", 0)] + [Op(f"x^{k}", 0) for k in range(1, nlabel)]
        kept = [tuple(int(x) for x in r) for r in table]
        mats = cut_matrices(kept, nsite)
        adj = [list(np.nonzero(r)[0]) for r in mats[0]]
        k1, _mv = L.max_matching(adj, mats[0].shape[1])
        vals = rng.uniform(0.5, 1.5, size=(nsite, nlabel))
        want = float(sum(f * np.prod([vals[i, r[i]] for i in range(nsite)]) for f, r in zip(factor, kept)))
        for algo in ALGOS:
            rep = dict(part="raw-table", table=table.tolist(), factor=factor.tolist(), algo=algo, labels=nlabel,
                       encoding="rows = terms, columns = sites, entries = label of the elementary operator (0 = identity)")
            try:
                res = construct_symbolic_mpo(table.copy(), primary_ops, factor.copy(), algo=algo)
            except Exception as e:  # noqa
                report(run, f"raw-table:{algo}:raises:{type(e).__name__}", dict(rep, error=repr(e)[:300]))
                continue
            n_eval += 1
            mpo = res[0]
            bonds = [1] + [int(m.shape[1]) for m in mpo]
            rep["observed_bond_dims"] = bonds
            run.count("raw-table:checked")
            if nsite >= 2 and bonds[1] != k1:
                report(run, f"raw-table:{algo}:first-bond-not-minimum-cover", dict(rep, expected_first_bond=int(k1)))
                continue
            if any(o > min(A.shape) for o, A in zip(bonds[1:-1], mats)):
                report(run, f"raw-table:{algo}:bond-exceeds-distinct-partial-terms", rep)
                continue
            vec = np.ones((1,))
            sym2lab = {op.symbol: i for i, op in enumerate(primary_ops)}
            for i, mo in enumerate(mpo):
                M = np.zeros(mo.shape)
                for (a, b), lst in np.ndenumerate(mo):
                    M[a, b] = sum(float(np.real(o.factor)) * vals[i, sym2lab[o.symbol]] for o in lst)
                vec = vec @ M
            got = float(vec[0])
            if abs(got - want) > 1e-9 * max(1.0, float(np.sum(np.abs(factor))) * 1.5 ** nsite):
                report(run, f"raw-table:{algo}:operator-differs-from-table", dict(rep, got=got, want=want))
    return n_eval


def search(run, rng, quick):
    t0 = time.time()
    ea, da = part_a(run, rng, quick)
    deadline = t0 + (50 if quick else 540)
    eb, db = part_b(run, rng, quick, deadline)
    er = part_raw(run, rng, quick)
    run.sample(dict(part="A", graphs_judged=ea))
    run.cov["evaluations"] = run.cov.get("evaluations", 0) + ea + eb + er
    run.cov["distinct_nontrivial"] = run.cov.get("distinct_nontrivial", 0) + da + db
    run.cov["rule"] = ("part A: one per graph with at least one edge (enumerated graphs are distinct by construction; random "
                       "graphs counted once each); part B: distinct deduplicated term tables with >= 2 rows and a cut of "
                       "minimum cover >= 2")
