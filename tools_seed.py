#!/usr/bin/env python3
"""Evaluate a seeded change:  tools_seed.py eval <dir with patch.diff, demo.py, meta.json> <Cxx> [--tests] [--keep NAME]

 1. creates a scratch git worktree of /repo HEAD under /tmp (never touches /repo),
 2. demo.py must exit 0 there; applies patch.diff; demo.py must exit != 0,
 3. (--tests) the pinned test-suite subset must give the same pass/fail set with the patch as without,
 4. runs ./check Cxx against the scratch tree (RENO_REPO) for seeds 0 and 1 and reports rc / VIOLATION signatures,
 5. removes the worktree; with --keep copies the directory to /verif/seeded/NAME and writes the outcome into meta.json.
"""
import json
import os
import shutil
import subprocess
import sys
import time

VERIF = os.path.dirname(os.path.abspath(__file__))
TESTS = ["renormalizer/mps/tests/test_mp.py", "renormalizer/mps/tests/test_mps.py", "renormalizer/mps/tests/test_mpo.py",
         "renormalizer/mps/tests/test_mpdm.py", "renormalizer/mps/tests/test_gs.py", "renormalizer/mps/tests/test_evolve.py",
         "renormalizer/model", "renormalizer/utils/tests", "renormalizer/lib", "renormalizer/mps/tests/test_mpproperty.py",
         "renormalizer/mps/tests/test_elementop.py", "renormalizer/mps/tests/test_backend.py",
         "renormalizer/mps/tests/test_tda.py", "renormalizer/vibration", "renormalizer/vibronic", "renormalizer/sbm",
         "renormalizer/transport/tests/test_dynamics.py", "renormalizer/spectra/tests/test_spectra.py"]


def sh(cmd, cwd=None, env=None, timeout=3600):
    p = subprocess.run(cmd, cwd=cwd, env=env, shell=isinstance(cmd, str), capture_output=True, text=True, timeout=timeout)
    return p.returncode, p.stdout + p.stderr


def run_tests(wt):
    env = dict(os.environ, PYTHONPATH=wt, RENO_NUM_THREADS="1", OMP_NUM_THREADS="1")
    env.pop("RENORMALIZER_VERIF", None)
    xml = os.path.join(wt, "_junit.xml")
    rc, out = sh(["/venv/bin/python", "-m", "pytest", "-q", "-p", "no:cacheprovider", "--timeout=900", "-n", "10",
                  "--continue-on-collection-errors", f"--junitxml={xml}"] + TESTS, cwd=wt, env=env, timeout=5400)
    res = {}
    try:
        import xml.etree.ElementTree as ET
        for tc in ET.parse(xml).getroot().iter("testcase"):
            name = tc.get("classname", "") + "::" + tc.get("name", "")
            bad = any(ch.tag in ("failure", "error") for ch in tc)
            skipped = any(ch.tag == "skipped" for ch in tc)
            res[name] = "fail" if bad else ("skip" if skipped else "pass")
    except Exception as e:  # noqa
        res["<junit>"] = "unreadable: " + repr(e)
    return res, out[-1500:]


def main():
    if len(sys.argv) < 4 or sys.argv[1] != "eval":
        print(__doc__)
        sys.exit(2)
    d = os.path.abspath(sys.argv[2])
    prop = sys.argv[3]
    do_tests = "--tests" in sys.argv
    keep = sys.argv[sys.argv.index("--keep") + 1] if "--keep" in sys.argv else None
    wt = f"/tmp/evalwt_{os.getpid()}"
    out = dict(property=prop, source=d)
    if "--prev" in sys.argv:      # re-evaluation after a check was strengthened: carry the test-suite comparison over
        try:
            prev = json.load(open(sys.argv[sys.argv.index("--prev") + 1]))
            for k in ("tests_changed", "tests_total"):
                if k in prev:
                    out[k] = prev[k]
            out["first_evaluation_checks"] = prev.get("checks")
            out["first_evaluation_caught"] = prev.get("caught")
        except Exception:  # noqa
            pass
    rc, o = sh(["git", "-C", "/repo", "worktree", "add", "-q", "--detach", wt, "HEAD"])
    if rc != 0:
        print("worktree failed", o)
        sys.exit(2)
    try:
        env = dict(os.environ, PYTHONPATH=f"{wt}:{d}/../shim:{VERIF}/harness/shims", RENO_NUM_THREADS="1", OMP_NUM_THREADS="1")
        rc0, o0 = sh(["/venv/bin/python", "-W", "ignore", os.path.join(d, "demo.py")], cwd=wt, env=env, timeout=1800)
        out["demo_clean_rc"] = rc0
        base = None
        if do_tests:
            head = sh(["git", "-C", "/repo", "rev-parse", "--short", "HEAD"])[1].strip()
            cache = f"/tmp/seed_base_{head}.json"
            if os.path.exists(cache):
                base = json.load(open(cache))
            else:
                base, _ = run_tests(wt)
                json.dump(base, open(cache, "w"))
        rc, o = sh(["git", "-C", wt, "apply", os.path.join(d, "patch.diff")])
        out["patch_applies"] = rc == 0
        if rc != 0:
            out["patch_error"] = o[-500:]
        else:
            rc1, o1 = sh(["/venv/bin/python", "-W", "ignore", os.path.join(d, "demo.py")], cwd=wt, env=env, timeout=1800)
            out["demo_patched_rc"] = rc1
            out["demo_patched_tail"] = o1[-400:]
            if do_tests:
                patched, tail = run_tests(wt)
                if "<junit>" in patched:          # pytest died before writing its report (overloaded machine): once more
                    out["tests_first_attempt_tail"] = tail[-600:]
                    patched, tail = run_tests(wt)
                diff = {k: (base.get(k), v) for k, v in patched.items() if base.get(k) != v}
                diff.update({k: (v, None) for k, v in base.items() if k not in patched})
                out["tests_changed"] = diff
                out["tests_total"] = len(patched)
            checks = []
            for seed in (0, 1):
                t0 = time.time()
                env2 = dict(os.environ, RENO_REPO=wt, VERIF_SEED=str(seed))
                rcc, oc = sh([os.path.join(VERIF, "check"), prop, "--tier", "quick"], cwd=VERIF, env=env2, timeout=3600)
                sigs = []
                for line in oc.splitlines():
                    if line.startswith("VIOLATION"):
                        path = line.split("replay=")[1].split()[0]
                        try:
                            sigs.append(json.load(open(path)).get("signature"))
                        except Exception:  # noqa
                            sigs.append("?")
                checks.append(dict(seed=seed, rc=rcc, wall_s=round(time.time() - t0, 1), signatures=sigs,
                                   no_failing_input=[l for l in oc.splitlines() if "no-failing-input-found" in l][:3],
                                   infra=[l for l in oc.splitlines() if "INFRASTRUCTURE" in l or "Traceback" in l][:2]))
            out["checks"] = checks
            out["caught"] = any(c["rc"] == 1 for c in checks)
    finally:
        sh(["git", "-C", "/repo", "worktree", "remove", "--force", wt])
        shutil.rmtree(wt, ignore_errors=True)
    print(json.dumps(out, indent=1))
    if keep:
        dst = os.path.join(VERIF, "seeded", keep)
        os.makedirs(dst, exist_ok=True)
        for f in ("patch.diff", "demo.py"):
            shutil.copy(os.path.join(d, f), os.path.join(dst, f))
        meta = {}
        try:
            meta = json.load(open(os.path.join(d, "meta.json")))
        except Exception:  # noqa
            pass
        meta["evaluation"] = out
        meta["evaluated_with"] = f"tools_seed.py eval {d} {prop}" + (" --tests" if do_tests else "")
        json.dump(meta, open(os.path.join(dst, "meta.json"), "w"), indent=1)


if __name__ == "__main__":
    main()
