#!/bin/sh
# developer helper: run all registered checks of one tier, N at a time (default 4); prints rc / wall / VIOLATION / KNOWN lines
# usage: TIER=thorough SEED=0 N=4 ./run_parallel.sh
cd "$(dirname "$0")"
TIER=${TIER:-quick}; SEED=${SEED:-0}; N=${N:-4}
mkdir -p /tmp/verif_runs
run1() {
  c=$1; s=$(date +%s)
  VERIF_SEED=$SEED ./check $c --tier $TIER > /tmp/verif_runs/$c.$TIER.$SEED.out 2>&1; rc=$?
  e=$(date +%s)
  echo "== $c rc=$rc wall=$((e-s))s $(grep -c VIOLATION /tmp/verif_runs/$c.$TIER.$SEED.out) violation(s) $(grep -c KNOWN-FINDING /tmp/verif_runs/$c.$TIER.$SEED.out) known"
  grep -E "VIOLATION|INFRASTRUCTURE|Traceback" /tmp/verif_runs/$c.$TIER.$SEED.out | cut -c1-200 | head -5
}
i=0
for c in ${CHECKS:-C01 C02 C03 C04 C05 C06 C07 C08 C09 C10 C11 C12 C13 C14 C15 C16 C17 C18 C19 C20}; do
  run1 $c &
  i=$((i+1))
  if [ $((i % N)) -eq 0 ]; then wait; fi
done
wait
