"""Translator: /repo/renormalizer/utils/rk.py  ->  lean/RenoVerif/Gen/RK.lean, RKProps.lean

Two paths, cross-checked:
  (1) runtime: import the module, take RungeKutta(m).tableau/stage/order for each name in
      method_list, convert every float64 to the unique rational with denominator <= 10**7 within
      1 ulp (continued fractions);
  (2) literal: parse the source with `ast`, evaluate every numeric expression of each branch of
      get_tableau exactly with Fractions (only + - * / and literals / `alpha`), and compare.
A float with no such rational, or a disagreement between the two paths, is reported as a
translation failure (returned in `problems`), never silently repaired.
"""
import ast
import importlib
import math
import os
import sys
from fractions import Fraction

MAXDEN = 10 ** 7


def to_rat(x):
    x = float(x)
    q = Fraction(x).limit_denominator(MAXDEN)
    if x == 0.0:
        return Fraction(0), True
    ulp = math.ulp(x)
    ok = abs(Fraction(x) - q) <= Fraction(ulp)
    return q, ok


def lean_rat(q):
    q = Fraction(q)
    if q.denominator == 1:
        return f"({q.numerator} : Rat)"
    return f"(({q.numerator} : Rat) / {q.denominator})"


def lean_name(m):
    s = "".join(ch if ch.isalnum() else "_" for ch in m)
    if s[0].isdigit():
        s = "m" + s
    return s


def runtime_tables(rk):
    out = {}
    problems = []
    for m in rk.method_list:
        r = rk.RungeKutta(m)
        a, b, c = r.tableau
        conv = {}
        for nm, arr in (("a", a), ("b", b), ("c", c)):
            lst = arr.tolist()

            def cv(v):
                if isinstance(v, list):
                    return [cv(x) for x in v]
                q, ok = to_rat(v)
                if not ok:
                    problems.append(f"{m}.{nm}: float {v!r} has no rational with denominator <= {MAXDEN} within 1 ulp")
                return q
            conv[nm] = cv(lst)
        out[m] = dict(a=conv["a"], b=conv["b"], c=conv["c"], stage=int(r.stage),
                      order=[int(x) for x in r.order])
    return out, problems


# ---------------------------------------------------------------- literal (ast) path
class _Ev(ast.NodeVisitor):
    def __init__(self, env):
        self.env = env

    def ev(self, n):
        if isinstance(n, ast.Constant) and isinstance(n.value, (int, float)):
            if isinstance(n.value, int):
                return Fraction(n.value)
            # a float literal: take the shortest decimal that round-trips (repr)
            return Fraction(repr(n.value))
        if isinstance(n, ast.UnaryOp) and isinstance(n.op, ast.USub):
            return -self.ev(n.operand)
        if isinstance(n, ast.UnaryOp) and isinstance(n.op, ast.UAdd):
            return self.ev(n.operand)
        if isinstance(n, ast.BinOp):
            l, r = self.ev(n.left), self.ev(n.right)
            if isinstance(n.op, ast.Add):
                return l + r
            if isinstance(n.op, ast.Sub):
                return l - r
            if isinstance(n.op, ast.Mult):
                return l * r
            if isinstance(n.op, ast.Div):
                return l / r
            raise ValueError("operator")
        if isinstance(n, ast.Name) and n.id in self.env:
            return self.env[n.id]
        if isinstance(n, (ast.List, ast.Tuple)):
            return [self.ev(e) for e in n.elts]
        if isinstance(n, ast.Call) and isinstance(n.func, ast.Attribute) and n.func.attr == "array":
            return self.ev(n.args[0])
        raise ValueError(f"unsupported node {ast.dump(n)[:80]}")


def literal_tables(src):
    """Best effort: returns {method: {a,b,c}} for the branches it can evaluate; others omitted."""
    tree = ast.parse(src)
    out = {}
    fn = None
    for node in ast.walk(tree):
        if isinstance(node, ast.FunctionDef) and node.name == "get_tableau":
            fn = node
    if fn is None:
        return out

    def methods_of(test):
        # self.method == "X"  or  self.method in [..]
        if isinstance(test, ast.Compare) and len(test.ops) == 1:
            if isinstance(test.ops[0], ast.Eq) and isinstance(test.comparators[0], ast.Constant):
                return [test.comparators[0].value]
            if isinstance(test.ops[0], ast.In) and isinstance(test.comparators[0], (ast.List, ast.Tuple)):
                return [e.value for e in test.comparators[0].elts if isinstance(e, ast.Constant)]
        return []

    def run_block(body, env, method):
        for st in body:
            if isinstance(st, ast.Assign) and len(st.targets) == 1 and isinstance(st.targets[0], ast.Name):
                try:
                    env[st.targets[0].id] = _Ev(env).ev(st.value)
                except Exception:
                    pass
            elif isinstance(st, ast.If):
                ms = methods_of(st.test)
                if method in ms:
                    run_block(st.body, env, method)
                else:
                    run_block(st.orelse, env, method)

    # collect all method names mentioned
    names = set()
    for node in ast.walk(fn):
        if isinstance(node, ast.If):
            names.update(methods_of(node.test))
    for m in names:
        env = {}
        try:
            run_block(fn.body, env, m)
        except Exception:
            continue
        if all(k in env for k in ("a", "b", "c")):
            out[m] = {k: env[k] for k in ("a", "b", "c")}
    return out


def cross_check(rt, lit):
    problems = []
    checked = 0
    for m, t in rt.items():
        if m not in lit:
            continue
        for k in ("a", "b", "c"):
            x = t[k]
            y = lit[m][k]
            if k == "b" and y and not isinstance(y[0], list):
                y = [y]
            if k == "b" and x and not isinstance(x[0], list):
                x = [x]

            def flat(v):
                return [z for r in v for z in (flat(r) if isinstance(r, list) else [r])]
            fx, fy = flat(x), flat(y)
            if len(fx) != len(fy):
                problems.append(f"{m}.{k}: literal path has {len(fy)} entries, runtime {len(fx)}")
                continue
            for i, (p, q) in enumerate(zip(fx, fy)):
                checked += 1
                # the literal value is exact; the runtime rational must be within 1ulp-limit_denominator of it
                if Fraction(q).limit_denominator(MAXDEN) != p and abs(p - q) > Fraction(1, 10 ** 12):
                    problems.append(f"{m}.{k}[{i}]: runtime {p} vs literal {q}")
    return checked, problems


def emit(rt, gen_dir):
    L = []
    L.append("-- GENERATED by /verif/translator/rk2lean.py from /repo/renormalizer/utils/rk.py; do not edit")
    L.append("import RenoVerif.Model.RKTree")
    L.append("namespace RenoVerif.RK.Gen")
    P = []
    P.append("-- GENERATED by /verif/translator/rk2lean.py; per-method proof obligations of C19")
    P.append("import RenoVerif.Gen.RK")
    P.append("import RenoVerif.Props.C19")
    P.append("import RenoVerif.Model.RKStep")
    P.append("namespace RenoVerif.RK.Gen")
    names = []
    for m, t in rt.items():
        n = lean_name(m)
        names.append((m, n, len(t["b"]), t["order"], t["stage"]))
        rows = ", ".join("[" + ", ".join(lean_rat(x) for x in row) + "]" for row in t["a"])
        L.append(f"def {n}_a : Mat := [{rows}]")
        for i, row in enumerate(t["b"]):
            L.append(f"def {n}_b{i} : Vec := [" + ", ".join(lean_rat(x) for x in row) + "]")
        L.append(f"def {n}_c : Vec := [" + ", ".join(lean_rat(x) for x in t["c"]) + "]")
        L.append(f"def {n}_stage : Nat := {t['stage']}")
        L.append(f"def {n}_order : List Nat := {t['order']}")
        # obligations
        P.append(f"theorem shape_{n} : shapeOK {n}_a {n}_b0 {n}_c {n}_stage = true := by decide +kernel")
        P.append(f"theorem explicit_{n} : explicitOK {n}_a = true := by decide +kernel")
        P.append(f"theorem nodes_{n} : rowSumsOK {n}_a {n}_c = true := by decide +kernel")
        for i in range(len(t["b"])):
            p = t["order"][i] if i < len(t["order"]) else 0
            P.append(f"theorem order_{n}_row{i} : orderOK {n}_a {n}_b{i} {p} = true := by decide +kernel")
            P.append(f"theorem order_{n}_row{i}_all_trees : ∀ c : F, c.size < {p} → "
                     f"Phi {n}_a {n}_b{i} c * (((1 + c.size) * c.G : Nat) : Rat) = 1 := "
                     f"orderOK_sound _ _ _ order_{n}_row{i}")
            P.append(f"theorem ti_{n}_row{i} : tiTaylorOK {n}_a {n}_b{i} {p} = true := by decide +kernel")
            P.append(f"theorem poly_{n}_row{i} : RenoVerif.RKStep.eqPoly (RenoVerif.RKStep.polyCoeffs {n}_a {n}_b{i}) "
                     f"(tiCoeff {n}_a {n}_b{i}) = true := by decide +kernel")
    L.append("/-- (python name, rows of b, orders, stage) -/")
    L.append("def methods : List (String × Mat × List Vec × Vec × Nat × List Nat) := [")
    ent = []
    for m, n, nb, order, stage in names:
        bs = ", ".join(f"{n}_b{i}" for i in range(nb))
        ent.append(f'  ("{m}", {n}_a, [{bs}], {n}_c, {n}_stage, {n}_order)')
    L.append(",\n".join(ent))
    L.append("]")
    L.append("end RenoVerif.RK.Gen")
    P.append("end RenoVerif.RK.Gen")
    changed = False
    for fn, lines in (("RK.lean", L), ("RKProps.lean", P)):
        path = os.path.join(gen_dir, fn)
        txt = "\n".join(lines) + "\n"
        old = open(path).read() if os.path.exists(path) else None
        if old != txt:
            with open(path, "w") as f:
                f.write(txt)
            changed = True
    theorems = [l.split()[1] for l in P if l.startswith("theorem ")]
    return changed, theorems


def main(repo="/repo", gen_dir=None):
    gen_dir = gen_dir or os.path.join(os.path.dirname(os.path.abspath(__file__)), "..", "lean", "RenoVerif", "Gen")
    sys.path.insert(0, repo)
    rk = importlib.import_module("renormalizer.utils.rk")
    rt, problems = runtime_tables(rk)
    src = open(os.path.join(repo, "renormalizer", "utils", "rk.py")).read()
    try:
        lit = literal_tables(src)
    except Exception as e:  # the literal path is only a cross-check
        lit = {}
        problems.append(f"literal path failed: {e!r}")
    checked, p2 = cross_check(rt, lit)
    problems += p2
    changed, theorems = emit(rt, gen_dir)
    return dict(tables=rt, problems=problems, literal_methods=sorted(lit), literal_entries_checked=checked,
                changed=changed, theorems=theorems)


if __name__ == "__main__":
    r = main()
    print("methods:", list(r["tables"]))
    print("literal path covered:", r["literal_methods"], "entries", r["literal_entries_checked"])
    print("problems:", r["problems"])
    print("changed:", r["changed"], "theorems:", len(r["theorems"]))
